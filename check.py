#!/usr/bin/env python3
"""
Driver: check.py <ID> [--tier quick|thorough] [--replay file]

Exit 0: the property held on everything explored (KNOWN-FINDING lines are printed for listed findings).
Exit 1: a violation not listed in known_findings.json; prints "VIOLATION property=<ID> replay=<path>".
Exit 2: harness error (never a verdict about the code under test).

The driver never imports nucs.  It shards the jobs of a property over worker processes
(/venv/bin/python -m vlib.worker) started with the right environment, merges their results, writes
evidence/<ID>.json and the replay files.
"""

import argparse
import fcntl
import glob
import hashlib
import json
import os
import shutil
import subprocess
import sys
import time

HERE = os.path.dirname(os.path.abspath(__file__))
REPO = os.environ.get("NUCS_REPO", "/repo")
PY = os.environ.get("VERIF_PYTHON", "/venv/bin/python")
WORK = os.environ.get("VERIF_WORK") or os.path.join(HERE, ".work")
EVID = os.environ.get("VERIF_EVIDENCE_DIR") or os.path.join(HERE, "evidence")
REPL = os.environ.get("VERIF_REPLAY_DIR") or os.path.join(HERE, "replays")
NCPU = int(os.environ.get("VERIF_JOBS", "16"))
GRACE_AFTER_FAILURE = 45
REGRESS_TIMEOUT = 600
WARM_TIMEOUT = int(os.environ.get("VERIF_WARM_TIMEOUT", "400"))


def tree_hash():
    h = hashlib.sha256()
    for p in sorted(glob.glob(os.path.join(REPO, "nucs", "**", "*.py"), recursive=True)):
        h.update(p.encode())
        h.update(open(p, "rb").read())
    return h.hexdigest()[:16]


def base_env(mode, thash, extra=None):
    env = {k: v for k, v in os.environ.items() if not k.startswith("NUMBA_")}
    env["PYTHONPATH"] = HERE + os.pathsep + REPO
    env["PYTHONHASHSEED"] = "0"
    env["PYTHONDONTWRITEBYTECODE"] = "1"
    env["NUCS_REPO"] = REPO
    env["NUCS_VERIF"] = "1"
    env["OMP_NUM_THREADS"] = env["NUMBA_NUM_THREADS"] = "1"
    env["VERIF_NBCACHE_J"] = os.path.join(WORK, "nbcache", thash)
    if mode == "I":
        env["NUMBA_DISABLE_JIT"] = "1"
    else:
        cache = os.path.join(WORK, "nbcache", thash)
        os.makedirs(cache, exist_ok=True)
        env["NUMBA_CACHE_DIR"] = cache
        if mode == "B":  # compiled with bounds checking, own cache
            env["NUMBA_BOUNDSCHECK"] = "1"
            cache = os.path.join(WORK, "nbcache", thash + "-bc")
            os.makedirs(cache, exist_ok=True)
            env["NUMBA_CACHE_DIR"] = cache
    if extra:
        env.update(extra)
    return env


def clean_old_caches(thash):
    root = os.path.join(WORK, "nbcache")
    if not os.path.isdir(root):
        return
    for d in os.listdir(root):
        if not d.startswith(thash):
            shutil.rmtree(os.path.join(root, d), ignore_errors=True)


def warm(mode, thash):
    """Compile the whole engine once into the content-keyed cache (under a lock), so that shards only load it."""
    cache = os.path.join(WORK, "nbcache", thash + ("-bc" if mode == "B" else ""))
    os.makedirs(cache, exist_ok=True)
    marker = os.path.join(cache, ".warm")
    with open(os.path.join(cache, ".lock"), "w") as lk:
        fcntl.flock(lk, fcntl.LOCK_EX)
        if os.path.exists(marker):
            return
        t0 = time.time()
        # only compilation matters here; on a broken tree the warm-up calls themselves may never return: after the time
        # limit the workers go on with whatever was compiled (they compile the rest themselves, under their own watchdog)
        try:
            r = subprocess.run([PY, "-m", "vlib.warm"], cwd=HERE, env=base_env(mode, thash), capture_output=True, text=True, timeout=WARM_TIMEOUT)
            if r.returncode != 0:
                sys.stderr.write("warm-up exited %s: %s\n" % (r.returncode, (r.stdout[-1000:] + r.stderr[-2000:])))
        except subprocess.TimeoutExpired:
            sys.stderr.write("warm-up did not finish within %d s; continuing\n" % WARM_TIMEOUT)
        open(marker, "w").write("%.1f" % (time.time() - t0))


def run_jobs(prop, jobs, seed, tier, thash, rundir):
    """Run all shards of all jobs with at most NCPU concurrent workers.  Returns list of (job, shard, result|None, rc, stderr)."""
    tasks = []
    for job in jobs:
        for s in range(job["shards"]):
            tasks.append((job, s))
    running = []
    done = []
    last_journal_check = [time.time()]
    first_failure = [None]
    it = iter(tasks)
    pending = True
    while pending or running:
        if first_failure[0] is not None and time.time() - first_failure[0] > GRACE_AFTER_FAILURE:
            pending = False
        while pending and len(running) < NCPU:
            try:
                job, s = next(it)
            except StopIteration:
                pending = False
                break
            out = os.path.join(rundir, "%s-%d.json" % (job["name"], s))
            err = open(out + ".err", "w")
            cmd = [PY, "-m", "vlib.worker", "--prop", prop, "--job", json.dumps(job), "--shard", str(s), "--nshards", str(job["shards"]), "--seed", str(seed), "--tier", tier, "--out", out]
            extra = dict(job.get("env") or {})
            extra["VERIF_JOURNAL"] = out + ".cur"
            p = subprocess.Popen(cmd, cwd=HERE, env=base_env(job.get("mode", "I"), thash, extra), stdout=err, stderr=err)
            running.append((p, job, s, out, time.time(), err))
        time.sleep(0.05)
        still = []
        now = time.time()
        check_journals = now - last_journal_check[0] > 2.0
        if check_journals:
            last_journal_check[0] = now
        cut = first_failure[0] is not None and now - first_failure[0] > GRACE_AFTER_FAILURE
        for p, job, s, out, t0, err in running:
            rc = p.poll()
            if rc is None and cut:
                # a violation has already been found: the other shards get a grace period, then the run is cut short
                p.kill()
                p.wait()
                err.close()
                done.append((job, s, None, "cut", ""))
                continue
            if rc is None and check_journals:
                # watchdog: a single case that does not come back (compiled code cannot be interrupted from inside)
                limit = job.get("case_timeout", 60 if job.get("mode", "I") != "I" else 900)
                try:
                    cur = json.load(open(out + ".cur"))
                except (OSError, ValueError):
                    cur = {}
                if cur.get("case") is not None and now - cur.get("t", now) > limit:
                    p.kill()
                    p.wait()
                    err.close()
                    done.append((job, s, None, "hang", json.dumps(cur["case"])))
                    continue
            if rc is None:
                if time.time() - t0 > job.get("timeout", 3600):
                    p.kill()
                    p.wait()
                    err.close()
                    done.append((job, s, None, "timeout", open(out + ".err").read()[-3000:]))
                else:
                    still.append((p, job, s, out, t0, err))
                continue
            err.close()
            res = None
            if rc == 0 and os.path.exists(out):
                res = json.load(open(out))
                if res.get("failures") and first_failure[0] is None:
                    first_failure[0] = time.time()
            if res is None and rc < 0 and job.get("crash_is_verdict"):
                # the process was killed by a signal (memory corruption): the case it was executing is in its journal
                try:
                    cur = json.load(open(out + ".cur"))
                except (OSError, ValueError):
                    cur = {}
                if cur.get("case") is not None:
                    done.append((job, s, None, "crash", json.dumps(cur["case"])))
                    continue
            done.append((job, s, res, rc, open(out + ".err").read()[-3000:]))
        running = still
    return done


def replay_cases(prop, cases, mode, thash, rundir, tag, timeout=None):
    inp = os.path.join(rundir, "replay-%s-in.json" % tag)
    out = os.path.join(rundir, "replay-%s-out.json" % tag)
    json.dump(cases, open(inp, "w"))
    try:
        r = subprocess.run([PY, "-m", "vlib.worker", "--prop", prop, "--job", "{}", "--replay", inp, "--out", out], cwd=HERE, env=base_env(mode, thash), capture_output=True, text=True, timeout=timeout)
    except subprocess.TimeoutExpired:
        return None
    if r.returncode < 0:
        return "crash"
    if r.returncode != 0 or not os.path.exists(out):
        sys.stderr.write(r.stdout[-3000:] + r.stderr[-3000:])
        raise SystemExit(2)
    return json.load(open(out))["replay"]


def canon(x):
    return json.dumps(x, sort_keys=True, separators=(",", ":"))


def main():
    ap = argparse.ArgumentParser()
    ap.add_argument("prop")
    ap.add_argument("--tier", default=os.environ.get("VERIF_TIER", "quick"))
    ap.add_argument("--replay", default=None)
    ap.add_argument("--jobs", default=None, help="comma separated job names (debugging)")
    a = ap.parse_args()
    prop = a.prop
    tier = a.tier if a.tier in ("quick", "thorough") else "quick"
    try:
        seed = int(os.environ.get("VERIF_SEED", "1"))
    except ValueError:
        seed = 1
    t0 = time.time()
    sys.path.insert(0, HERE)
    from vlib import props as registry  # registry only; property modules are imported by the workers

    if prop not in registry.MODULES:
        print("unknown property %s" % prop)
        return 2
    thash = tree_hash()
    clean_old_caches(thash)
    rundir = os.path.join(WORK, "run", "%s-%d" % (prop, os.getpid()))
    shutil.rmtree(rundir, ignore_errors=True)
    os.makedirs(rundir, exist_ok=True)
    spec = json.loads(subprocess.run([PY, "-c", "import json,sys;sys.path.insert(0,%r);from vlib.props import spec;print(json.dumps(spec(%r,%r)))" % (HERE, prop, tier)], capture_output=True, text=True, env=base_env("I", thash), cwd=HERE).stdout or "null")
    if spec is None:
        print("cannot load spec for %s" % prop)
        return 2
    replay_mode = spec.get("replay_mode", "I")

    # ---------------- replay of one file ----------------
    if a.replay:
        doc = json.load(open(a.replay))
        case = doc["case"] if isinstance(doc, dict) and "case" in doc else doc
        mode = doc.get("mode", replay_mode) if isinstance(doc, dict) else replay_mode
        if mode != "I":
            warm(mode, thash)
        r = replay_cases(prop, [case], mode, thash, rundir, "one")[0]
        shutil.rmtree(rundir, ignore_errors=True)
        if r["ok"] is None:
            print(r["msg"])
            return 2
        if r["ok"]:
            print("replay holds: property=%s %s" % (prop, a.replay))
            return 0
        print("replay fails: %s" % r["msg"])
        print("VIOLATION property=%s replay=%s" % (prop, a.replay))
        return 1

    modes = {j.get("mode", "I") for j in spec["jobs"]} | {replay_mode}
    for m in sorted(modes - {"I"}):
        warm(m, thash)

    # ---------------- known findings and regression cases ----------------
    kf_path = os.path.join(HERE, "known_findings.json")
    kf = json.load(open(kf_path)) if os.path.exists(kf_path) else {"findings": []}
    mine = [f for f in kf.get("findings", []) if f["property"] == prop]
    known_lines = []
    violations = []  # (case, msg, source)
    if mine:
        rs = replay_cases(prop, [f["case"] for f in mine], replay_mode, thash, rundir, "known")
        for f, r in zip(mine, rs):
            if r["ok"] is None:
                sys.stderr.write(r["msg"])
                return 2
            if not r["ok"]:
                known_lines.append("KNOWN-FINDING: property=%s %s [%s] %s" % (prop, f["id"], f["what"], r["msg"]))
            else:
                print("note: listed finding %s no longer reproduces" % f["id"])
    reg_files = sorted(glob.glob(os.path.join(HERE, "replays", "regress", prop, "*.json")))
    regress_n = 0
    if reg_files:
        docs = [json.load(open(p)) for p in reg_files]
        rs = replay_cases(prop, [d["case"] for d in docs], replay_mode, thash, rundir, "regress", timeout=REGRESS_TIMEOUT)
        if rs is None or rs == "crash":
            # one of them does not come back (or kills the process): find out which, one at a time
            rs = []
            for d in docs:
                r1 = replay_cases(prop, [d["case"]], replay_mode, thash, rundir, "regress1", timeout=REGRESS_TIMEOUT // 2)
                if r1 is None:
                    rs.append({"ok": False, "msg": "the replay does not return within %d s (it used to take seconds at most)" % (REGRESS_TIMEOUT // 2)})
                elif r1 == "crash":
                    rs.append({"ok": False, "msg": "the replay kills the worker process (signal)"})
                else:
                    rs.append(r1[0])
        for p, d, r in zip(reg_files, docs, rs):
            regress_n += 1
            if r["ok"] is None:
                sys.stderr.write(r["msg"])
                return 2
            if not r["ok"]:
                violations.append((d["case"], "regression case %s fails again: %s" % (os.path.basename(p), r["msg"]), "regress", p))

    # ---------------- search ----------------
    for old in glob.glob(os.path.join(REPL, "%s-*.json" % prop)):
        os.remove(old)  # replay files of earlier runs; rewritten below if the violation is still there
    jobs = spec["jobs"]
    if a.jobs:
        jobs = [j for j in jobs if j["name"] in a.jobs.split(",")]
    results = run_jobs(prop, jobs, seed, tier, thash, rundir)
    harness_errors = []
    merged = {"evaluations": 0, "nontrivial": set(), "exh_nontrivial": 0, "samples": [], "hist": {}, "excluded": {}, "per_job": {}}
    inconclusive = []
    hangs = []
    for job, s, res, rc, err in results:
        if res is None:
            if rc == "timeout":
                inconclusive.append("%s shard %d hit its time budget" % (job["name"], s))
                continue
            if rc in ("hang", "crash"):
                hangs.append((job, s, json.loads(err)))
                continue
            if rc == "cut":
                inconclusive.append("%s shard %d was stopped after another shard had found a violation" % (job["name"], s))
                continue
            if job.get("crash_is_verdict"):
                continue
            harness_errors.append("%s shard %d exited %s\n%s" % (job["name"], s, rc, err))
            continue
        merged["evaluations"] += res["evaluations"]
        merged["nontrivial"].update(res["nontrivial"])
        merged["exh_nontrivial"] += res.get("exhaustive_nontrivial", 0)
        for smp in res["samples"]:
            if len(merged["samples"]) < 8:
                merged["samples"].append(smp)
        for k, v in res["hist"].items():
            merged["hist"][k] = merged["hist"].get(k, 0) + v
        for k, v in res["excluded"].items():
            merged["excluded"][k] = merged["excluded"].get(k, 0) + v
        pj = merged["per_job"].setdefault(job["name"], {"evaluations": 0, "wall_s_max": 0.0, "mode": job.get("mode", "I")})
        pj["evaluations"] += res["evaluations"]
        pj["wall_s_max"] = max(pj["wall_s_max"], round(res.get("wall_s", 0.0), 1))
        for k in res.get("extra", {}):
            pj.setdefault("extra", {})
            pj["extra"][k] = pj["extra"].get(k, 0) + res["extra"][k]
        for f in res["failures"]:
            violations.append((f["case"], f["msg"], job["name"], None))
    # a case on which a worker stopped answering: confirmed in fresh processes before anything is claimed
    seen_hang = set()
    for job, s, case in hangs[:3]:
        if canon(case) in seen_hang:
            continue
        if violations and not job.get("crash_is_verdict"):
            inconclusive.append("%s shard %d stopped answering on a case (not confirmed: a violation was already found)" % (job["name"], s))
            continue
        seen_hang.add(canon(case))
        mode = job.get("mode", "I")
        if job.get("slow_ok"):
            # instances whose running time legitimately depends on the configuration: time is not a verdict
            inconclusive.append("%s shard %d: a case exceeded the per-case time limit (no verdict): %s" % (job["name"], s, json.dumps(case)[:300]))
            continue
        again = replay_cases(prop, [case], mode, thash, rundir, "hang-%s" % mode, timeout=90)
        interp = replay_cases(prop, [case], "I", thash, rundir, "hang-I", timeout=600) if mode != "I" else again
        if again == "crash" or interp == "crash":
            violations.append((case, "the worker process is killed by a signal while executing this case in mode %s (reproduced in a fresh process): memory was corrupted" % mode, job["name"], None))
        elif interp and interp[0]["ok"] is False:
            violations.append((case, "worker stopped answering in mode %s; interpreted replay: %s" % (mode, interp[0]["msg"]), job["name"], None))
        elif again is None:
            violations.append((case, "the call does not return in mode %s (killed after 60 s and again after 90 s in a fresh process; such cases normally take milliseconds)%s" % (mode, "" if interp is None else "; the interpreted replay returns"), job["name"], None))
        elif again and again[0]["ok"] is False:
            violations.append((case, again[0]["msg"], job["name"], None))
        else:
            inconclusive.append("%s shard %d: a case exceeded the per-case time limit once but completed on replay" % (job["name"], s))
    if harness_errors:
        for h in harness_errors:
            sys.stderr.write("HARNESS ERROR: " + h + "\n")
        return 2

    # ---------------- verdict ----------------
    known_canon = {canon(f["case"]) for f in mine}
    new = []
    seen = set()
    for case, msg, src, path in violations:
        c = canon(case)
        if c in known_canon or c in seen:
            continue
        seen.add(c)
        new.append((case, msg, src, path))
    os.makedirs(REPL, exist_ok=True)
    lines = []
    for case, msg, src, path in new[:10]:
        if path is None:
            hh = hashlib.sha1(canon(case).encode()).hexdigest()[:10]
            path = os.path.join(REPL, "%s-%s.json" % (prop, hh))
            json.dump({"property": prop, "job": src, "mode": next((j.get("mode", "I") for j in spec["jobs"] if j["name"] == src), replay_mode), "msg": msg, "case": case, "seed": seed, "tier": tier}, open(path, "w"), indent=1)
        print("violation: %s" % msg)
        lines.append("VIOLATION property=%s replay=%s" % (prop, path))
    for l in known_lines:
        print(l)

    distinct = len(merged["nontrivial"]) + merged["exh_nontrivial"]
    level = spec["meta"].get("level", "exploration")
    ev = {
        "property_id": prop,
        "tier": tier,
        "seed": seed,
        "level": level,
        "coverage": {
            "evaluations": merged["evaluations"] + regress_n + len(mine),
            "distinct_nontrivial": distinct,
            "rule": spec["meta"]["rule"],
            "samples": merged["samples"][:8],
            "exhaustive": bool(spec["meta"].get("exhaustive_part")) and not inconclusive,
            "exhaustive_part": spec["meta"].get("exhaustive_part", ""),
            "histogram": dict(sorted(merged["hist"].items())),
            "excluded_by_construction": merged["excluded"],
            "per_job": merged["per_job"],
            "regression_cases_replayed": regress_n,
            "known_findings_replayed": len(mine),
            "known_findings_still_failing": len(known_lines),
            "inconclusive": inconclusive,
            "tree_hash": thash,
        },
        "assumptions": spec["meta"].get("assumptions", []),
        "wall_s": round(time.time() - t0, 2),
        "violations": len(new),
    }
    os.makedirs(EVID, exist_ok=True)
    tmp = os.path.join(EVID, "%s.json.tmp" % prop)
    json.dump(ev, open(tmp, "w"), indent=1)
    os.replace(tmp, os.path.join(EVID, "%s.json" % prop))
    shutil.rmtree(rundir, ignore_errors=True)
    print("%s tier=%s seed=%d evaluations=%d distinct_nontrivial=%d violations=%d known=%d wall=%.1fs" % (prop, tier, seed, ev["coverage"]["evaluations"], distinct, len(new), len(known_lines), ev["wall_s"]))
    for l in lines:
        print(l)
    return 1 if new else 0


if __name__ == "__main__":
    sys.exit(main())
