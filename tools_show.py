import json,sys,glob
for f in sorted(glob.glob('replays/%s-*.json'%sys.argv[1])):
    d=json.load(open(f)); c=d['case']
    print(d['job'], json.dumps(c)[:200], '|', d['msg'][:140])
