"""
Splitting GolombProblem(5) on variable 2 (= mark 3) into 3 parts and enumerating every part with the shipped
golomb_consistency_algorithm loses solutions: the union of the sub-problems' solutions is a strict subset of the
solution set of the original problem (which the same algorithm enumerates completely when the problem is not split).
Oracle: pure-Python enumeration of all Golomb rulers with 5 marks satisfying the model (length <= 55, d01 < d34).
Exit code 1 when the violation is present.
"""
import itertools
import os
import sys

sys.path.insert(0, os.path.dirname(os.path.dirname(os.path.abspath(__file__))))
from nucs.examples.golomb.golomb_problem import GolombProblem, golomb_consistency_algorithm, index  # noqa: E402
from nucs.solvers.backtrack_solver import BacktrackSolver  # noqa: E402
from nucs.solvers.consistency_algorithms import CONSISTENCY_ALG_BC, register_consistency_algorithm  # noqa: E402

N = 5
ALG_GOLOMB = register_consistency_algorithm(golomb_consistency_algorithm)


def solve(problem, alg):
    solver = BacktrackSolver(problem, consistency_alg_idx=alg, log_level="ERROR")
    return [tuple(int(x) for x in s) for s in solver.solve()]


def oracle(problem):
    """All assignments of the 10 distance variables that satisfy the definition of the model."""
    doms = problem.shr_domains_lst
    hi = max(int(d[1]) for d in doms)
    sols = set()
    for marks in itertools.combinations(range(1, hi + 1), N - 1):
        m = (0,) + marks
        vals = [0] * len(doms)
        for i in range(N - 1):
            for j in range(i + 1, N):
                vals[index(N, i, j)] = m[j] - m[i]
        if len(set(vals)) != len(vals):
            continue  # all distances are different
        if not vals[index(N, 0, 1)] < vals[index(N, N - 2, N - 1)]:
            continue  # symmetry breaking
        if all(int(d[0]) <= v <= int(d[1]) for d, v in zip(doms, vals)):
            sols.add(tuple(vals))
    return sols


problem = GolombProblem(N)
expected = oracle(problem)
unsplit = solve(GolombProblem(N), ALG_GOLOMB)
print(f"oracle: {len(expected)} solutions; unsplit problem, Golomb algorithm: {len(unsplit)} solutions")
assert set(unsplit) == expected and len(unsplit) == len(expected)

subs = problem.split(3, 2)
print("sub-domains of variable 2:", [[int(b) for b in s.shr_domains_lst[2]] for s in subs])
union, union_bc = [], []
for sub in subs:
    union += solve(sub, ALG_GOLOMB)
for sub in problem.split(3, 2):
    union_bc += solve(sub, CONSISTENCY_ALG_BC)
print(f"split(3, 2), plain bound consistency: {len(union_bc)} solutions, equal to oracle: {set(union_bc) == expected}")
missing = sorted(expected - set(union))
print(f"split(3, 2), Golomb algorithm: {len(union)} solutions, missing {len(missing)}, e.g. {missing[:3]}")
if set(union) != expected or len(union) != len(expected):
    print("VIOLATION: the union of the sub-problems' solutions is not the original solution set")
    sys.exit(1)
print("ok")
