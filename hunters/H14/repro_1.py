"""
alldifferent (and gcc) wrongly report INCONSISTENCY as soon as the scope has >= 32768 variables whose
bounds are pairwise distinct (more than 65535 distinct values among the min's and the max+1's).
The documented limit is "the number of variables is an unsigned 16-bits integer" (docs/source/variables_domains.rst),
i.e. up to 65535 variables.
Run: NUMBA_CACHE_DIR=/tmp/wt/H14/.nbcache /venv/bin/python _hunt/repro_1.py    (exit 1 when the defect is present)
"""
import sys

import numpy as np

from nucs.constants import PROP_INCONSISTENCY
from nucs.propagators.alldifferent_propagator import compute_domains_alldifferent
from nucs.propagators.gcc_propagator import compute_domains_gcc

bad = False
for n in (32767, 32768):
    # x_i in [3i, 3i+1]: the domains are pairwise disjoint, every tuple of the box is a solution:
    # the hull is the box itself and the constraint is satisfiable.
    box = np.zeros((n, 2), dtype=np.int32)
    box[:, 0] = 3 * np.arange(n)
    box[:, 1] = 3 * np.arange(n) + 1
    d = box.copy()
    st = compute_domains_alldifferent(d, np.zeros(0, dtype=np.int32))
    print(f"alldifferent n={n}: status={st} unchanged={np.array_equal(d, box)}")
    if st == PROP_INCONSISTENCY or not np.array_equal(d, box):
        bad = True
    m = 3 * n
    d = box.copy()
    st = compute_domains_gcc(d, np.array([0] + [0] * m + [1] * m, dtype=np.int32))
    print(f"gcc          n={n}: status={st} unchanged={np.array_equal(d, box)}")
    if st == PROP_INCONSISTENCY or not np.array_equal(d, box):
        bad = True
sys.exit(1 if bad else 0)
