"""
Adding a fresh variable (plus an always-true constraint on it) to a model that uses views
(more variables than shared domains, e.g. the shipped QueensProblem):
- add_variable() returns len(shr_domains_lst), which is NOT the index of the new variable
  (it is the index of an existing view), although the docstring says "the index of the extra variable";
- shr_domain_nb is set to len(dom_indices_lst) instead of len(shr_domains_lst), and BacktrackSolver.__init__ raises
  "ValueError: cannot assign slice from input of different size".
The same model written with the constructor works. Exit 1 when the violation is present.
"""
import sys

from nucs.examples.queens.queens_problem import QueensProblem
from nucs.problems.problem import Problem
from nucs.propagators.propagators import ALG_ALLDIFFERENT, ALG_DUMMY
from nucs.solvers.backtrack_solver import BacktrackSolver

n = 4
q = QueensProblem(n)
ref = Problem(q.shr_domains_lst + [(7, 7)], q.dom_indices_lst + [n], q.dom_offsets_lst + [0])
ref.add_propagators(q.propagators)
ref.add_propagator(([3 * n], ALG_DUMMY, []))
ref_sols = sorted(tuple(int(v) for v in s) for s in BacktrackSolver(ref, log_level="ERROR").find_all())
print("constructor:", len(ref_sols), "solutions")

p = QueensProblem(n)
v = p.add_variable((7, 7))
bad = False
if v != 3 * n:
    print(f"VIOLATION: add_variable returned {v}, the new variable has index {3 * n} (variable {v} is an existing view)")
    bad = True
p.add_propagator(([3 * n], ALG_DUMMY, []))
try:
    sols = sorted(tuple(int(x) for x in s) for s in BacktrackSolver(p, log_level="ERROR").find_all())
    if sols != ref_sols:
        print("VIOLATION: different solutions", len(sols), len(ref_sols))
        bad = True
except Exception as e:
    print(f"VIOLATION: {type(e).__name__}: {e} (shr_domain_nb={p.shr_domain_nb}, shared domains={len(p.shr_domains_lst)})")
    bad = True
sys.exit(1 if bad else 0)
