"""
add_variable(..., dom_index=k, dom_offset=o) is the documented way to add a view on an existing shared domain.
It also appends a ghost shared domain that no variable references; the ghost is enumerated by the search,
so the same model written with the constructor and with add_variable() does not yield the same solutions
(every solution is reported |ghost domain| times; statistics and solution counts differ).
Run with PYTHONPATH=/tmp/wt/H13. Exit 1 when the violation is present.
"""
import sys

from nucs.problems.problem import Problem
from nucs.propagators.propagators import ALG_AFFINE_LEQ
from nucs.solvers.backtrack_solver import BacktrackSolver

# model: x in [0,3], y = x + 1, x + y <= 5
a = Problem([(0, 3)], [0, 0], [0, 1])
a.add_propagator(([0, 1], ALG_AFFINE_LEQ, [1, 1, 5]))
sols_a = [tuple(int(v) for v in s) for s in BacktrackSolver(a, log_level="ERROR").find_all()]

b = Problem([(0, 3)])
y = b.add_variable((0, 3), dom_index=0, dom_offset=1)  # y is a view: x + 1
b.add_propagator(([0, y], ALG_AFFINE_LEQ, [1, 1, 5]))
sols_b = [tuple(int(v) for v in s) for s in BacktrackSolver(b, log_level="ERROR").find_all()]

print("constructor :", sols_a)
print("add_variable:", sols_b)
print("shared domains of b:", b.shr_domains_lst, "indices:", b.dom_indices_lst)
if sorted(sols_a) != sorted(sols_b):
    print("VIOLATION: the two writings of the same model do not have the same solutions")
    sys.exit(1)
sys.exit(0)
