"""
DOUBTFUL D1 - a BacktrackSolver is silently single-use for optimisation.
optimize() resets the stacks between two improving solutions, but neither on entry nor on exit:
a second minimize()/maximize() on the same solver object starts from the left-over state of the first one
(objective domain emptied by the last tightening, MIN > MAX).
Exit 1 when the violation is present.
Run: cd /tmp/wt/H03 && NUMBA_CACHE_DIR=/tmp/wt/H03/.nbcache /venv/bin/python _hunt/repro_D1.py
"""
import sys

sys.path.insert(0, "/tmp/wt/H03")
from nucs.problems.problem import Problem
from nucs.propagators.propagators import ALG_AFFINE_GEQ
from nucs.solvers.backtrack_solver import BacktrackSolver

bad = 0
# (a) feasible problem, second minimize returns None
p = Problem([(0, 5), (0, 5)])
p.add_propagator(([0, 1], ALG_AFFINE_GEQ, [1, 1, 3]))  # x0 + x1 >= 3
s = BacktrackSolver(p, log_level="ERROR")
first = s.minimize(0)
second = s.minimize(0)
print("first minimize(0):", first, " second minimize(0):", second, "(expected [0 3] twice)")
if first is None or second is None or second[0] != 0:
    bad = 1
# (b) no constraint at all: the second call returns a value outside the domain of variable 1
p = Problem([(2, 3), (-1, 0)])
s = BacktrackSolver(p, log_level="ERROR")
r1 = s.maximize(1)
r2 = s.minimize(0)
print("maximize(1):", r1, " then minimize(0):", r2, "(variable 1 has domain [-1, 0])")
if r2 is None or not (-1 <= r2[1] <= 0) or r2[0] != 2:
    bad = 1
sys.exit(bad)
