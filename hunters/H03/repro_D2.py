"""
DOUBTFUL D2 - objective whose domain touches the int32 limits: the tightening wraps around and the optimisation
does not terminate (and goes through "incumbents" outside the domain).
docs/source/variables_domains.rst: "Domains limits are 32-bits integers."
Exit 1 when the violation is present (the call is run in a child process with a 20 s budget).
Run: cd /tmp/wt/H03 && NUMBA_CACHE_DIR=/tmp/wt/H03/.nbcache /venv/bin/python _hunt/repro_D2.py
"""
import multiprocessing as mp
import sys

sys.path.insert(0, "/tmp/wt/H03")


def run(which, q):
    from nucs.problems.problem import Problem
    from nucs.solvers.backtrack_solver import BacktrackSolver

    if which == "min":
        r = BacktrackSolver(Problem([(-(2**31), -(2**31) + 1)]), log_level="ERROR").minimize(0)
    else:
        r = BacktrackSolver(Problem([(2**31 - 2, 2**31 - 1)]), log_level="ERROR").maximize(0)
    q.put(None if r is None else r.tolist())


if __name__ == "__main__":
    bad = 0
    for which, expected in (("min", [-(2**31)]), ("max", [2**31 - 1])):
        q = mp.Queue()
        proc = mp.Process(target=run, args=(which, q))
        proc.start()
        proc.join(20)
        if proc.is_alive():
            proc.terminate()
            print(which, ": still running after 20 s (expected", expected, ")")
            bad = 1
        else:
            r = q.get()
            print(which, ":", r, "expected", expected)
            if r != expected:
                bad = 1
    sys.exit(bad)
