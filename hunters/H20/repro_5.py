"""
MagicSquareProblem(1) raises ValueError("range() arg 3 must not be zero") in second_diag() (step 1 - n == 0),
although the order-1 magic square [[0]] exists (known count: 1). Exit code 1 when the violation is present.
"""
import sys

from nucs.constants import LOG_LEVEL_ERROR
from nucs.examples.magic_square.magic_square_problem import MagicSquareProblem
from nucs.solvers.backtrack_solver import BacktrackSolver

try:
    solutions = BacktrackSolver(MagicSquareProblem(1, False), log_level=LOG_LEVEL_ERROR).find_all()
    print("solutions", solutions)
    sys.exit(0 if len(solutions) == 1 else 1)
except ValueError as e:
    print("MagicSquareProblem(1) raises", repr(e))
    sys.exit(1)
