"""
Golomb ruler, 6 marks, shipped launcher configuration (custom consistency algorithm, default heuristics,
symmetry breaking on). The problem is split on its length variable with Problem.split() (the shipped way to
create sub-problems for the MultiprocessingSolver); the first sub-problem contains the rulers of length 15..23.
Enumerating it loses the valid rulers (0, 4, 14, 16, 17, 22) and (0, 4, 14, 16, 17, 23), that plain bound consistency and brute force both find.
Exit code 1 when the violation is present.
"""
import sys

from nucs.constants import LOG_LEVEL_ERROR
from nucs.examples.golomb.golomb_problem import GolombProblem, golomb_consistency_algorithm
from nucs.solvers.backtrack_solver import BacktrackSolver
from nucs.solvers.consistency_algorithms import CONSISTENCY_ALG_BC, register_consistency_algorithm

ALG_GOLOMB = register_consistency_algorithm(golomb_consistency_algorithm)
N = 6


def brute_force(lo: int, hi: int):
    res = []

    def rec(marks, used):
        if len(marks) == N:
            if lo <= marks[-1] <= hi and marks[1] - marks[0] < marks[-1] - marks[-2]:  # symmetry breaking
                res.append(tuple(marks))
            return
        for m in range(marks[-1] + 1, hi + 1):
            ds = [m - x for x in marks]
            if len(set(ds)) == len(ds) and not any(d in used for d in ds):
                rec(marks + [m], used | set(ds))

    rec([0], set())
    return sorted(res)


def enumerate_with(alg: int):
    problem = GolombProblem(N, symmetry_breaking=True)
    sub_problem = problem.split(13, problem.length_idx)[0]
    lo, hi = sub_problem.shr_domains_lst[problem.length_idx]
    solver = BacktrackSolver(sub_problem, consistency_alg_idx=alg, log_level=LOG_LEVEL_ERROR)
    return lo, hi, sorted(tuple([0] + [int(x) for x in s[: N - 1]]) for s in solver.find_all())


lo, hi, with_bc = enumerate_with(CONSISTENCY_ALG_BC)
_, _, with_golomb = enumerate_with(ALG_GOLOMB)
expected = brute_force(lo, hi)
print(f"length in [{lo}, {hi}]: brute force {len(expected)}, bound consistency {len(with_bc)}, golomb alg {len(with_golomb)}")
print("lost by golomb_consistency_algorithm:", sorted(set(expected) - set(with_golomb)))
assert with_bc == expected
sys.exit(1 if with_golomb != expected else 0)
