"""
MagicSequenceProblem(n) cannot be solved for n >= 255 although n = 254 is solved in a fraction of a second:
Problem.init() stores the propagator variable ranges in uint16 arrays (nucs/problems/problem.py:164-173);
n COUNT_EQ propagators over n+1 variables + 2 AFFINE_EQ over n variables need n*(n+1)+2n > 65535 slots for n >= 255,
the running sum wraps around (numpy RuntimeWarning) and init() dies with an unrelated broadcast ValueError.
Known result: for every n >= 7 there is exactly one magic sequence (n-4, 2, 1, 0, ..., 0, 1, 0, 0, 0).
Exit code 1 when the violation is present.
"""
import sys

from nucs.constants import LOG_LEVEL_ERROR
from nucs.examples.magic_sequence.magic_sequence_problem import MagicSequenceProblem
from nucs.solvers.backtrack_solver import BacktrackSolver

bad = False
for n in (254, 255, 300):
    expected = [n - 4, 2, 1] + [0] * (n - 7) + [1, 0, 0, 0]
    try:
        problem = MagicSequenceProblem(n)
        solver = BacktrackSolver(
            problem, decision_domains=list(range(n - 1, -1, -1)), log_level=LOG_LEVEL_ERROR, stack_max_height=4096
        )  # same configuration as python -m nucs.examples.magic_sequence
        solutions = [[int(x) for x in s] for s in solver.find_all()]
        ok = solutions == [expected]
        print(n, "solutions:", len(solutions), "OK" if ok else "WRONG")
    except Exception as e:
        ok = False
        print(n, "raises", type(e).__name__, e)
    bad = bad or not ok
sys.exit(1 if bad else 0)
