"""
Golomb ruler, 8 marks, shipped custom consistency algorithm, DOM_HEURISTIC_MAX_VALUE:
minimize() returns a ruler of length 35 although the optimal 8-mark Golomb ruler has length 34.
Run: cd /tmp/wt/H20 && PYTHONPATH=/tmp/wt/H20 NUMBA_CACHE_DIR=/tmp/wt/H20/.nbcache /venv/bin/python _hunt/repro_1.py
Exit code 1 when the violation is present.
"""
import sys

from nucs.constants import LOG_LEVEL_ERROR
from nucs.examples.golomb.golomb_problem import GolombProblem, golomb_consistency_algorithm
from nucs.heuristics.heuristics import DOM_HEURISTIC_MAX_VALUE, VAR_HEURISTIC_FIRST_NOT_INSTANTIATED
from nucs.solvers.backtrack_solver import BacktrackSolver
from nucs.solvers.consistency_algorithms import CONSISTENCY_ALG_BC, register_consistency_algorithm

ALG_GOLOMB = register_consistency_algorithm(golomb_consistency_algorithm)
N, OPTIMUM = 8, 34  # known optimum (CSPLib prob006, OEIS A003022); also confirmed below with plain bound consistency


def optimum(alg: int) -> int:
    problem = GolombProblem(N, symmetry_breaking=True)
    solver = BacktrackSolver(
        problem,
        consistency_alg_idx=alg,
        var_heuristic_idx=VAR_HEURISTIC_FIRST_NOT_INSTANTIATED,
        dom_heuristic_idx=DOM_HEURISTIC_MAX_VALUE,
        log_level=LOG_LEVEL_ERROR,
    )
    solution = solver.minimize(problem.length_idx)
    print("alg", alg, "marks", [0] + [int(x) for x in solution[: N - 1]])
    return int(solution[problem.length_idx])


with_bc = optimum(CONSISTENCY_ALG_BC)
with_golomb = optimum(ALG_GOLOMB)
print("bound consistency:", with_bc, " golomb_consistency_algorithm:", with_golomb, " known optimum:", OPTIMUM)
sys.exit(1 if with_golomb != OPTIMUM else 0)
