"""
GolombProblem(16): init_domains() reads GOLOMB_LENGTHS[15], but the table has 15 entries (indices 0..14).
Compiled (njit, no bounds check) the read returns garbage that becomes the lower bound of dist(0,14) and dist(1,15);
here it is ~1.9e9 > MAX, so the model is reported unsatisfiable although 16-mark Golomb rulers exist
(15 marks: first solution found instantly). With NUMBA_DISABLE_JIT=1 the constructor raises IndexError instead.
Exit code 1 when the violation is present.
"""
import sys

from nucs.constants import LOG_LEVEL_ERROR
from nucs.examples.golomb.golomb_problem import GolombProblem, index
from nucs.solvers.backtrack_solver import BacktrackSolver

N = 16
OGR_15 = 151  # length of the optimal 15-mark ruler: the largest valid lower bound for a 15-mark sub-ruler
try:
    problem = GolombProblem(N)
except IndexError as e:
    print("GolombProblem(16) raises", repr(e))
    sys.exit(1)
lb = int(problem.shr_domains_lst[index(N, 0, N - 2)][0])
print("lower bound of dist(0,14):", lb, "(any valid bound is <=", OGR_15, ")")
solver = BacktrackSolver(problem, log_level=LOG_LEVEL_ERROR, stack_max_height=1024)
solution = next(solver.solve(), None)
print("first solution:", None if solution is None else [0] + [int(x) for x in solution[: N - 1]])
# a greedy witness that a 16-mark Golomb ruler exists
marks, used = [0], set()
m = 0
while len(marks) < N:
    m += 1
    ds = [m - x for x in marks]
    if not any(d in used for d in ds):
        marks.append(m)
        used |= set(ds)
print("witness ruler:", marks)
sys.exit(1 if (solution is None or lb > OGR_15) else 0)
