"""
Finding 2: the statistics attached by a worker to a solution are not a snapshot: the worker enqueues a reference to
its live statistics array, which multiprocessing.Queue pickles later (feeder thread), after the worker has gone on
searching. After a partial enumeration the MultiprocessingSolver therefore reports many more solutions
(and choices, backtracks, filter calls...) than what had happened when the last delivered solution was found.
Run: cd /tmp/wt/H17 && NUMBA_CACHE_DIR=/tmp/wt/H17/.nbcache /venv/bin/python _hunt/repro_2.py
Exit code 1 when the violation is present.
"""
import multiprocessing
import sys

from nucs.examples.queens.queens_problem import QueensProblem
from nucs.solvers.backtrack_solver import BacktrackSolver
from nucs.solvers.multiprocessing_solver import MultiprocessingSolver

K = 2

if __name__ == "__main__":
    # reference: the same partial enumeration with the plain solver
    ref = BacktrackSolver(QueensProblem(8), log_level="ERROR")
    n = 0
    for _ in ref.solve():
        n += 1
        if n == K:
            break
    ref_stats = ref.get_statistics()
    violated = 0
    for trial in range(5):
        solver = MultiprocessingSolver([BacktrackSolver(QueensProblem(8), log_level="ERROR")], log_level="ERROR")
        delivered = 0
        for _ in solver.solve():
            delivered += 1
            if delivered == K:
                break
        stats = solver.get_statistics()
        for child in multiprocessing.active_children():
            child.terminate()
            child.join()
        print(
            f"trial {trial}: delivered {delivered}, SOLVER_SOLUTION_NB {stats['SOLVER_SOLUTION_NB']} "
            f"(plain solver: {ref_stats['SOLVER_SOLUTION_NB']}), SOLVER_CHOICE_NB {stats['SOLVER_CHOICE_NB']} "
            f"(plain solver: {ref_stats['SOLVER_CHOICE_NB']})"
        )
        if stats["SOLVER_SOLUTION_NB"] != delivered:
            violated += 1
    if violated:
        print(f"VIOLATION in {violated}/5 trials: solutions counted != solutions delivered (single worker)")
    sys.exit(1 if violated else 0)
