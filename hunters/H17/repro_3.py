"""
Finding 3: one propagator execution is counted both as an entailment and as an inconsistency.
x and y = x + 1 share one domain [0, 1]; the only constraint is lexicographic_leq([y], [x]) i.e. x + 1 <= x.
Run: cd /tmp/wt/H17 && NUMBA_CACHE_DIR=/tmp/wt/H17/.nbcache /venv/bin/python _hunt/repro_3.py
Exit code 1 when the violation is present.
"""
import sys

from nucs.problems.problem import Problem
from nucs.propagators.propagators import ALG_LEXICOGRAPHIC_LEQ, ALG_RELATION
from nucs.solvers.backtrack_solver import BacktrackSolver

violated = False
for name, domain, scope, alg, params in [
    ("lexicographic_leq([x+1], [x])", (0, 1), [1, 0], ALG_LEXICOGRAPHIC_LEQ, []),
    ("relation((x, x+1) in {(2, 2)})", (0, 3), [0, 1], ALG_RELATION, [2, 2]),
]:
    problem = Problem([domain], [0, 0], [0, 1])  # x = d0, y = d0 + 1
    problem.add_propagator((scope, alg, params))
    solver = BacktrackSolver(problem, log_level="ERROR")
    solutions = solver.find_all()
    stats = solver.get_statistics()
    f, e, i, nc = (
        stats["PROPAGATOR_FILTER_NB"],
        stats["PROPAGATOR_ENTAILMENT_NB"],
        stats["PROPAGATOR_INCONSISTENCY_NB"],
        stats["PROPAGATOR_FILTER_NO_CHANGE_NB"],
    )
    print(f"{name}: {len(solutions)} solutions, filter={f} entailment={e} inconsistency={i} no_change={nc}")
    # the problem is inconsistent and there is a single execution: its outcome is an inconsistency, not an entailment
    if f == 1 and (e != 0 or e + i > f):
        print("  VIOLATION: 1 execution, but 1 entailment + 1 inconsistency are reported")
        violated = True
sys.exit(1 if violated else 0)
