"""
Finding 1: after a partial enumeration with the MultiprocessingSolver, get_statistics() raises
(TypeError: 'NoneType' object is not subscriptable) instead of returning the totals over the workers.
Run: cd /tmp/wt/H17 && NUMBA_CACHE_DIR=/tmp/wt/H17/.nbcache /venv/bin/python _hunt/repro_1.py
Exit code 1 when the violation is present.
"""
import multiprocessing
import sys

from nucs.examples.queens.queens_problem import QueensProblem
from nucs.solvers.backtrack_solver import BacktrackSolver
from nucs.solvers.multiprocessing_solver import MultiprocessingSolver

if __name__ == "__main__":
    problems = QueensProblem(6).split(2, 0)  # 6-queens: 4 solutions, 2 in each half
    solver = MultiprocessingSolver([BacktrackSolver(p, log_level="ERROR") for p in problems], log_level="ERROR")
    delivered = 0
    for _ in solver.solve():  # partial enumeration: the user only wants the first solution
        delivered += 1
        break
    violated = False
    try:
        stats = solver.get_statistics()
        print("delivered", delivered, "statistics", stats)
        if stats["SOLVER_SOLUTION_NB"] != delivered:
            print("VIOLATION: solutions counted != solutions delivered")
            violated = True
    except TypeError as e:
        print("VIOLATION: get_statistics() raised after a partial enumeration:", repr(e))
        print("per worker statistics:", solver.statistics)
        violated = True
    for child in multiprocessing.active_children():
        child.terminate()
        child.join()
    sys.exit(1 if violated else 0)
