# Finding 1 (only in the interpreted mode NUMBA_DISABLE_JIT=1): affine_leq / affine_geq answer ENTAILED for a box
# in which every tuple violates the constraint, because the sums are accumulated in numpy int32 scalars and wrap.
# Exit code 1 when the violation is present.
import os, sys, warnings
os.environ["NUMBA_DISABLE_JIT"] = "1"  # must be set before nucs / numba are imported
warnings.simplefilter("ignore")
import numpy as np
from nucs.constants import PROP_ENTAILMENT
from nucs.problems.problem import Problem
from nucs.propagators.propagators import ALG_AFFINE_GEQ, ALG_AFFINE_LEQ, COMPUTE_DOMAINS_FCTS
from nucs.solvers.backtrack_solver import BacktrackSolver

bad = False
# 40000 * x <= 0 with x in [60000, 60001]: 40000*60000 = 2.4e9 fits neither in int32 nor is it <= 0
d = np.array([[60000, 60001]], dtype=np.int32)
st = COMPUTE_DOMAINS_FCTS[ALG_AFFINE_LEQ](d, np.array([40000, 0], dtype=np.int32))
print("affine_leq 40000*x <= 0, x in [60000,60001] ->", st, "(2 = PROP_ENTAILMENT)")
bad |= st == PROP_ENTAILMENT
# -40000 * x >= 0 with x in [60000, 60001]
d = np.array([[60000, 60001]], dtype=np.int32)
st = COMPUTE_DOMAINS_FCTS[ALG_AFFINE_GEQ](d, np.array([-40000, 0], dtype=np.int32))
print("affine_geq -40000*x >= 0, x in [60000,60001] ->", st, "(2 = PROP_ENTAILMENT)")
bad |= st == PROP_ENTAILMENT
# consequence at solver level: violating solutions are admitted
pb = Problem([(60000, 60001)])
pb.add_propagator(([0], ALG_AFFINE_LEQ, [40000, 0]))
sols = BacktrackSolver(pb, log_level="ERROR").find_all()
print("solutions of 40000*x <= 0:", [s.tolist() for s in sols], "(expected none)")
bad |= len(sols) > 0
sys.exit(1 if bad else 0)
