"""
alldifferent: a domain whose max is 2**31-1 (or two bounds that are 2**31 or more apart) makes the propagator
report INCONSISTENCY on a satisfiable box.
Run: cd /tmp/wt/H05 && NUMBA_CACHE_DIR=/tmp/wt/H05/.nbcache PYTHONPATH=. /venv/bin/python _hunt/repro_2.py
"""
import sys

import numpy as np

from nucs.constants import PROP_INCONSISTENCY
from nucs.propagators.alldifferent_propagator import compute_domains_alldifferent

I = 2**31 - 1
bad = 0
for doms, witness in [
    ([(0, I), (0, 5)], (7, 0)),
    ([(1, I), (2, I), (3, I)], (1, 2, 3)),  # compiled mode
    ([(I - 1, I), (I - 3, I)], (I, I - 3)),  # compiled mode
    ([(-1_100_000_000, 1_100_000_000)] * 2, (0, 1)),  # no bound near the limits, but the span is >= 2**31
    ([(-I - 1, 10), (0, 0), (0, 1)], (5, 0, 1)),
]:
    d = np.array(doms, dtype=np.int32)
    status = compute_domains_alldifferent(d, np.zeros(0, dtype=np.int32))
    assert len(set(witness)) == len(witness) and all(a <= x <= b for x, (a, b) in zip(witness, doms))
    print(doms, "-> status", status, d.tolist())
    if status == PROP_INCONSISTENCY:
        print("   VIOLATION: INCONSISTENCY but", witness, "is a solution of the input box")
        bad += 1
sys.exit(1 if bad else 0)
