"""
no_sub_cycle with more than 32768 vertices: the int16 path table wraps and a value is removed from the WRONG variable,
which removes Hamiltonian circuits of the input box.
Run: cd /tmp/wt/H05 && NUMBA_CACHE_DIR=/tmp/wt/H05/.nbcache PYTHONPATH=. /venv/bin/python _hunt/repro_3.py
"""
import sys

import numpy as np

from nucs.constants import MAX, MIN, PROP_INCONSISTENCY
from nucs.propagators.no_sub_cycle_propagator import compute_domains_no_sub_cycle

n = 40000
d = np.zeros((n, 2), dtype=np.int32)
d[:, MAX] = n - 1
d[0] = 33000  # the successor of vertex 0 is vertex 33000, everything else is free
d_in = d.copy()
status = compute_domains_no_sub_cycle(d, np.zeros(0, dtype=np.int32))
changed = np.flatnonzero((d != d_in).any(axis=1))
print("status", status, "changed rows", changed.tolist(), d[changed].tolist())
# a Hamiltonian circuit of the input box: 0 -> 33000 -> (all the others) -> 7464 -> 0
order = [0, 33000] + [v for v in range(1, n) if v not in (33000, 7464)] + [7464]
succ = np.zeros(n, dtype=np.int64)
for a, b in zip(order, order[1:] + [0]):
    succ[a] = b
# it is a single cycle of length n
seen = np.zeros(n, dtype=bool)
c = 0
for _ in range(n):
    assert not seen[c]
    seen[c] = True
    c = succ[c]
assert c == 0 and seen.all()
assert np.all((d_in[:, MIN] <= succ) & (succ <= d_in[:, MAX]))  # in the input box
lost = status == PROP_INCONSISTENCY or not np.all((d[:, MIN] <= succ) & (succ <= d[:, MAX]))
if lost:
    print("VIOLATION: the Hamiltonian circuit 0 -> 33000 -> ... -> 7464 -> 0 is no longer in the box")
    print("(the only sound pruning here is removing 0 from the domain of vertex 33000)")
sys.exit(1 if lost else 0)
