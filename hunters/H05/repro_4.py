"""
alldifferent / gcc over more than 32767 variables whose bounds are all distinct: ranks and pointers are uint16,
2n+2 does not fit, and the propagator reports INCONSISTENCY on a trivially satisfiable box.
Run: cd /tmp/wt/H05 && NUMBA_CACHE_DIR=/tmp/wt/H05/.nbcache PYTHONPATH=. /venv/bin/python _hunt/repro_4.py
"""
import sys

import numpy as np

from nucs.constants import PROP_INCONSISTENCY
from nucs.propagators.alldifferent_propagator import compute_domains_alldifferent
from nucs.propagators.gcc_propagator import compute_domains_gcc

bad = 0
for n in (32000, 33001):
    d = np.zeros((n, 2), dtype=np.int32)
    d[:, 0] = 3 * np.arange(n)
    d[:, 1] = d[:, 0] + 1  # pairwise disjoint domains {3i, 3i+1}: every tuple is a solution
    s = compute_domains_alldifferent(d.copy(), np.zeros(0, dtype=np.int32))
    print("alldifferent n =", n, "status", s)
    if s == PROP_INCONSISTENCY:
        bad += 1
    m = 3 * n
    s = compute_domains_gcc(d.copy(), np.array([0] + [0] * m + [1] * m, dtype=np.int32))
    print("gcc          n =", n, "status", s)
    if s == PROP_INCONSISTENCY:
        bad += 1
if bad:
    print("VIOLATION: INCONSISTENCY although every tuple of the box is a solution")
sys.exit(1 if bad else 0)
