"""
Interpreted mode only (NUMBA_DISABLE_JIT=1, the mode CONTRIBUTING.md uses for coverage/profiling):
the affine propagators compute c * x with numpy int32 scalars, the product wraps, solutions are removed.
The compiled functions promote to int64 and are right on the same input.
Run: cd /tmp/wt/H05 && PYTHONPATH=. /venv/bin/python _hunt/repro_5.py
"""
import os
import sys
import warnings

os.environ["NUMBA_DISABLE_JIT"] = "1"
warnings.simplefilter("ignore")

import numpy as np  # noqa: E402

from nucs.constants import PROP_INCONSISTENCY  # noqa: E402
from nucs.propagators.affine_geq_propagator import compute_domains_affine_geq  # noqa: E402

doms = [(0, 100000), (0, 100000)]
params = [100000, 100000, 1000000000]  # 100000 * x0 + 100000 * x1 >= 10**9
witness = (10000, 0)
assert 100000 * witness[0] + 100000 * witness[1] >= 10**9
d = np.array(doms, dtype=np.int32)
status = compute_domains_affine_geq(d, np.array(params, dtype=np.int32))
print(doms, params, "-> status", status, d.tolist())
lost = status == PROP_INCONSISTENCY or not all(d[i, 0] <= witness[i] <= d[i, 1] for i in range(2))
if lost:
    print("VIOLATION: the solution", witness, "has been removed")
sys.exit(1 if lost else 0)
