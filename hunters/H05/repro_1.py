"""
gcc: capacities whose sum does not fit in an int32 make the propagator report INCONSISTENCY on a satisfiable box.
Each capacity is an ordinary int32 parameter (e.g. 600_000_000, or 2**31-1 used as "no upper bound").
Run: cd /tmp/wt/H05 && NUMBA_CACHE_DIR=/tmp/wt/H05/.nbcache PYTHONPATH=. /venv/bin/python _hunt/repro_1.py
(also fails with NUMBA_DISABLE_JIT=1)
"""
import sys

import numpy as np

from nucs.constants import PROP_INCONSISTENCY
from nucs.propagators.gcc_propagator import compute_domains_gcc

bad = 0
for doms, params, witness in [
    # 4 variables in [0,3], no lower bounds, capacity 600_000_000 for each of the 4 values
    ([(0, 3)] * 4, [0, 0, 0, 0, 0] + [600_000_000] * 4, (0, 1, 2, 3)),
    # control: the same with capacity 1000 is (rightly) consistent
    ([(0, 3)] * 4, [0, 0, 0, 0, 0] + [1000] * 4, (0, 1, 2, 3)),
    # a single value with an "infinite" capacity
    ([(0, 0)] * 3, [0, 0, 2**31 - 1], (0, 0, 0)),
    ([(0, 2)] * 3, [0, 1, 1, 1] + [10**9] * 3, (0, 1, 2)),
]:
    d = np.array(doms, dtype=np.int32)
    p = np.array(params, dtype=np.int32)
    status = compute_domains_gcc(d, p)
    m = (len(params) - 1) // 2
    counts = [sum(1 for x in witness if x == params[0] + j) for j in range(m)]
    assert all(params[1 + j] <= counts[j] <= params[1 + m + j] for j in range(m))  # the witness is a solution
    assert all(a <= x <= b for x, (a, b) in zip(witness, doms))
    print(doms, params, "-> status", status, d.tolist())
    if status == PROP_INCONSISTENCY:
        print("   VIOLATION: INCONSISTENCY but", witness, "is a solution of the input box")
        bad += 1
sys.exit(1 if bad else 0)
