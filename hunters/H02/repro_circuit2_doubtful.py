"""Doubtful: NO_SUB_CYCLE accepts self-loops when n == 2 (CircuitProblem(2) excludes them through its domains)."""
import os, sys
sys.path.insert(0, os.path.join(os.path.dirname(os.path.abspath(__file__)), ".."))
from nucs.constants import LOG_LEVEL_ERROR
from nucs.problems.problem import Problem
from nucs.propagators.propagators import ALG_ALLDIFFERENT, ALG_NO_SUB_CYCLE
from nucs.solvers.backtrack_solver import BacktrackSolver

p = Problem([(0, 1), (0, 1)])
p.add_propagator(([0, 1], ALG_ALLDIFFERENT, []))
p.add_propagator(([0, 1], ALG_NO_SUB_CYCLE, []))
print([s.tolist() for s in BacktrackSolver(p, log_level=LOG_LEVEL_ERROR).solve()], "expected only [1, 0]")
