"""
SPLIT_LOW / MID_VALUE value heuristics compute (min + max) // 2 on numpy int32 scalars.
With NUMBA_DISABLE_JIT=1 (the plain-Python mode the library explicitly supports, see nucs/constants.py
NUMBA_DISABLE_JIT and the `if NUMBA_DISABLE_JIT:` branches of solve_one), the sum wraps around as soon as
|min + max| >= 2**31, although both bounds are legal 32-bit domain limits ("Domains limits are 32-bits integers").
The enumeration then yields values outside of the domain and never stops (JIT mode is correct: Numba widens to int64).
Exit code 1 when the violation is present.
"""
import os
import sys
import warnings

os.environ["NUMBA_DISABLE_JIT"] = "1"
warnings.simplefilter("ignore")
sys.path.insert(0, os.path.join(os.path.dirname(os.path.abspath(__file__)), ".."))

from nucs.constants import LOG_LEVEL_ERROR  # noqa: E402
from nucs.heuristics.heuristics import DOM_HEURISTIC_MID_VALUE, DOM_HEURISTIC_SPLIT_LOW  # noqa: E402
from nucs.problems.problem import Problem  # noqa: E402
from nucs.solvers.backtrack_solver import BacktrackSolver  # noqa: E402

LO, HI = -(2**30) - 5, -(2**30)  # 6 values, one unconstrained variable
expected = sorted(range(LO, HI + 1))
violation = False
for name, h in (("MID_VALUE", DOM_HEURISTIC_MID_VALUE), ("SPLIT_LOW", DOM_HEURISTIC_SPLIT_LOW)):
    solver = BacktrackSolver(Problem([(LO, HI)]), dom_heuristic_idx=h, log_level=LOG_LEVEL_ERROR)
    got = []
    try:
        for solution in solver.solve():
            got.append(int(solution[0]))
            if len(got) > 20:
                break
    except Exception as e:  # SPLIT_LOW ends with "The choice points stack is full"
        got.append(repr(e))
    ok = got == expected or sorted(x for x in got if isinstance(x, int)) == expected and len(got) == 6
    print(name, "domain", (LO, HI), "->", got[:8], "..." if len(got) > 8 else "", "OK" if ok else "VIOLATION")
    violation |= not ok
sys.exit(1 if violation else 0)
