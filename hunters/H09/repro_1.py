"""
repro_1: split_low_dom_heuristic / mid_value_dom_heuristic compute (min + max) // 2 in int32 when the library runs
interpreted (NUMBA_DISABLE_JIT=1, the mode documented in CONTRIBUTING.md for tests/coverage/profiling).
For a domain [a, b] with |a + b| >= 2**31 (domain limits are documented as 32-bits integers) the sum wraps:
the branch and the alternative are empty / overlapping ranges that are not a partition of [a, b],
and the solver returns a wrong set of solutions.  (Compiled mode is fine: numba promotes int32 + int32 to int64.)
Exit code 1 when the violation is present.
"""
import os, sys, warnings
os.environ["NUMBA_DISABLE_JIT"] = "1"
sys.path.insert(0, os.path.join(os.path.dirname(os.path.abspath(__file__)), ".."))
warnings.simplefilter("ignore")
import numpy as np
from nucs.heuristics.heuristics import DOM_HEURISTIC_MID_VALUE, DOM_HEURISTIC_SPLIT_LOW, DOM_HEURISTIC_FCTS
from nucs.problems.problem import Problem
from nucs.propagators.propagators import ALG_AFFINE_LEQ
from nucs.solvers.backtrack_solver import BacktrackSolver
from nucs.solvers.choice_points import cp_init

violations = 0
a, b = 2**30, 2**30 + 3
# 1. definition level: one branching decision on the single domain [a, b]
for name, h in (("split_low", DOM_HEURISTIC_SPLIT_LOW), ("mid_value", DOM_HEURISTIC_MID_VALUE)):
    stack = np.zeros((5, 1, 2), dtype=np.int32)
    flags = np.ones((5, 1), dtype=np.bool_)
    upd = np.zeros((5, 2), dtype=np.uint16)
    top = np.ones(1, dtype=np.uint16)
    cp_init(stack, flags, upd, top, np.array([[a, b]], dtype=np.int32))
    DOM_HEURISTIC_FCTS[h](np.zeros((1, 1), dtype=np.int64), stack, flags, upd, top, 0)
    ranges = [tuple(r) for r in stack[: top[0] + 1, 0].tolist()]  # alternatives ... branch taken
    covered = sorted(v for lo, hi in ranges for v in range(lo, hi + 1)) if all(hi - lo < 100 for lo, hi in ranges) else None
    ok = all(lo <= hi for lo, hi in ranges) and covered == list(range(a, b + 1))
    print(f"{name}: domain [{a}, {b}] -> sub-ranges {ranges} : {'partition' if ok else 'NOT A PARTITION'}")
    violations += not ok
# 2. solver level: x in [a, b], x <= b (always true): 4 solutions expected
for name, h in (("split_low", DOM_HEURISTIC_SPLIT_LOW), ("mid_value", DOM_HEURISTIC_MID_VALUE)):
    problem = Problem([(a, b)])
    problem.add_propagator(([0], ALG_AFFINE_LEQ, [1, b]))
    solver = BacktrackSolver(problem, dom_heuristic_idx=h, log_level="ERROR")
    try:
        got = sorted(int(s[0]) for s in solver.find_all())
    except Exception as e:  # noqa
        got = repr(e)
    exp = list(range(a, b + 1))
    print(f"{name}: find_all -> {got}, expected {exp}")
    violations += got != exp
sys.exit(1 if violations else 0)
