"""no_sub_cycle accepts the identity permutation on 2 vertices (two cycles of length 1).

Run: cd /tmp/wt/H01 && NUMBA_DISABLE_JIT=1 PYTHONPATH=. /venv/bin/python _hunt/repro_2.py
"""
import sys

from nucs.problems.problem import Problem
from nucs.propagators.propagators import ALG_ALLDIFFERENT, ALG_NO_SUB_CYCLE
from nucs.solvers.backtrack_solver import BacktrackSolver

bad = 0
for n in (2, 3, 4):
    p = Problem([(0, n - 1)] * n)
    p.add_propagator((list(range(n)), ALG_ALLDIFFERENT, []))
    p.add_propagator((list(range(n)), ALG_NO_SUB_CYCLE, []))
    sols = [x.tolist() for x in BacktrackSolver(p, log_level="ERROR").find_all()]
    for sol in sols:
        cur, k = 0, 0
        while True:
            cur = sol[cur]
            k += 1
            if cur == 0:
                break
        if k != n:
            print(f"n={n}: reported successor array {sol} contains a cycle of length {k} < {n}")
            bad += 1
    print(f"n={n}: {len(sols)} solutions")
sys.exit(1 if bad else 0)
