"""A search call on a solver whose previous search is exhausted reports assignments that violate posted constraints.

Run: cd /tmp/wt/H01 && NUMBA_DISABLE_JIT=1 PYTHONPATH=. /venv/bin/python _hunt/repro_1.py   (same result compiled)
"""
import sys

from nucs.problems.problem import Problem
from nucs.propagators.propagators import ALG_AFFINE_GEQ, ALG_AFFINE_LEQ
from nucs.solvers.backtrack_solver import BacktrackSolver

bad = 0

# (a) an infeasible problem: x + y >= 2 and x + y <= 1 on [0,1]^2
p = Problem([(0, 1), (0, 1)])
p.add_propagator(([0, 1], ALG_AFFINE_GEQ, [1, 1, 2]))
p.add_propagator(([0, 1], ALG_AFFINE_LEQ, [1, 1, 1]))
s = BacktrackSolver(p, log_level="ERROR")
first = [x.tolist() for x in s.find_all()]
second = [x.tolist() for x in s.find_all()]
print("(a) first find_all :", first, "(expected [])")
print("(a) second find_all:", second, "(every element must satisfy x+y>=2 and x+y<=1)")
for x, y in second:
    if not (x + y >= 2 and x + y <= 1):
        bad += 1

# (b) a feasible problem: x <= y and x + y <= 1; enumerate everything, then optimise with the same solver
p = Problem([(0, 1), (0, 1)])
p.add_propagator(([0, 1], ALG_AFFINE_LEQ, [1, -1, 0]))  # x <= y
p.add_propagator(([0, 1], ALG_AFFINE_LEQ, [1, 1, 1]))  # x + y <= 1
s = BacktrackSolver(p, log_level="ERROR")
print("(b) find_all:", [x.tolist() for x in s.find_all()], "(expected [[0,0],[0,1]])")
best = s.maximize(0)
print("(b) maximize(x) on the same solver:", None if best is None else best.tolist(), "(x+y<=1 must hold)")
if best is not None and not (best[0] <= best[1] and best[0] + best[1] <= 1):
    bad += 1

sys.exit(1 if bad else 0)
