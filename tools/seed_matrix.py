#!/usr/bin/env python3
"""Runs the quick checks named in each seeded/<name>/meta.json against that seeded change (scratch worktree) and records
what happened under "detection" in the meta file.  usage: tools/seed_matrix.py [name ...]"""
import json, os, subprocess, sys, time
S = "/verif/seeded"
names = sys.argv[1:] or sorted(os.listdir(S))
for name in names:
    mp = os.path.join(S, name, "meta.json")
    if not os.path.exists(mp):
        continue
    m = json.load(open(mp))
    det = {}
    r = subprocess.run(["/verif/tools/try_mutant.sh", os.path.join(S, name, "patch.diff")] + m["checks"], capture_output=True, text=True, env=dict(os.environ, LINES_MAX="2"))
    cur = None
    for line in r.stdout.splitlines():
        if line.startswith("== "):
            parts = line.split()
            cur = parts[1]
            det[cur] = {"rc": int(parts[2].split("=")[1]), "seconds": int(parts[3].rstrip("s")), "caught": parts[2] == "rc=1"}
        elif cur and line.startswith("violation:") and "first_violation" not in det[cur]:
            det[cur]["first_violation"] = line[:300]
    m["detection"] = {"tier": "quick", "seed": 1, "verif_commit": subprocess.run("git -C /verif rev-parse --short HEAD", shell=True, capture_output=True, text=True).stdout.strip(), "checks": det}
    json.dump(m, open(mp, "w"), indent=1)
    print(name, {k: v["rc"] for k, v in det.items()}, flush=True)
