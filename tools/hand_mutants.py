#!/usr/bin/env python3
"""
Sensitivity runs (DESIGN.md 2.6): planted one-line mutants of /repo.  Each is applied to /repo's working
tree, the named checks are run (quick tier), and the tree is restored (git checkout).  Nothing is committed.

usage: tools/hand_mutants.py [name ...]      (no name: all)
"""

import os
import subprocess
import sys
import time

REPO = "/repo"
M = [
    # name, file, old, new, checks expected to catch it
    ("ground-without-change", "nucs/solvers/bound_consistency_algorithm.py", "            if events != 0:\n                if shr_domains_stack[top, shr_domain_idx, MIN] > shr_domains_stack[top, shr_domain_idx, MAX]:", "            if shr_domains_stack[top, shr_domain_idx, MIN] == shr_domains_stack[top, shr_domain_idx, MAX]:\n                events |= EVENT_MASK_GROUND\n            if events != 0:\n                if shr_domains_stack[top, shr_domain_idx, MIN] > shr_domains_stack[top, shr_domain_idx, MAX]:", ["C04", "C17"]),
    ("bc-drop-max-event", "nucs/solvers/bound_consistency_algorithm.py", "                shr_domains_stack[top, shr_domain_idx, MAX] = shr_domain_max\n                events |= EVENT_MASK_MAX", "                shr_domains_stack[top, shr_domain_idx, MAX] = shr_domain_max\n                events |= EVENT_MASK_MIN", ["C08", "C02"]),
    ("pop-skip-previous-forever", "nucs/propagators/propagators.py", "    if previous_prop_idx >= 0 and triggered_propagators[previous_prop_idx]:", "    if False and triggered_propagators[previous_prop_idx]:", ["C08"]),
    ("affine-leq-trigger-swap", "nucs/propagators/affine_leq_propagator.py", "        if c < 0:\n            triggers[i] = EVENT_MASK_MAX\n        elif c > 0:\n            triggers[i] = EVENT_MASK_MIN", "        if c < 0:\n            triggers[i] = EVENT_MASK_MIN\n        elif c > 0:\n            triggers[i] = EVENT_MASK_MAX", ["C08", "C02"]),
    ("shaving-undo-sign", "nucs/solvers/shaving_consistency_algorithm.py", "+= 1 if bound == MAX else -1", "+= -1 if bound == MAX else 1", ["C10"]),
    ("shaving-missing-stat", "nucs/solvers/shaving_consistency_algorithm.py", "            statistics[STATS_IDX_ALG_SHAVING_NO_CHANGE_NB] += 1\n", "            pass\n", ["C17"]),
    ("depth-before-push", "nucs/solvers/backtrack_solver.py", "            statistics[STATS_IDX_SOLVER_CHOICE_NB] += 1\n            if stacks_top[0] > statistics[STATS_IDX_SOLVER_CHOICE_DEPTH]:\n                statistics[STATS_IDX_SOLVER_CHOICE_DEPTH] = stacks_top[0]", "            statistics[STATS_IDX_SOLVER_CHOICE_NB] += 1\n            if stacks_top[0] - 1 > statistics[STATS_IDX_SOLVER_CHOICE_DEPTH]:\n                statistics[STATS_IDX_SOLVER_CHOICE_DEPTH] = stacks_top[0] - 1", ["C17"]),
    ("mp-sum-depth", "nucs/solvers/multiprocessing_solver.py", "STATS_LBL_SOLVER_CHOICE_DEPTH: max_stats(", "STATS_LBL_SOLVER_CHOICE_DEPTH: sum_stats(", ["C17", "C11"]),
    ("mp-lt-gt", "nucs/solvers/multiprocessing_solver.py", 'return self.optimize(variable_idx, "minimize_and_queue", operator.lt)', 'return self.optimize(variable_idx, "minimize_and_queue", operator.gt)', ["C03", "C11"]),
    ("decrease-max-no-offset", "nucs/solvers/solver.py", "MAX] = value - 1 - dom_offsets_arr[var_idx]", "MAX] = value - 1", ["C03", "C13"]),
    ("decrease-max-no-progress", "nucs/solvers/solver.py", "MAX] = value - 1 - dom_offsets_arr[var_idx]", "MAX] = value - dom_offsets_arr[var_idx]", ["C03", "C04"]),
    ("cp-put-no-flags", "nucs/solvers/choice_points.py", "    not_entailed_propagators_stack[cp_top_idx + 1, :] = not_entailed_propagators_stack[cp_top_idx, :]\n", "    not_entailed_propagators_stack[cp_top_idx + 1, :] = True\n", ["C09"]),
    ("min-value-alt-off-by-one", "nucs/heuristics/min_value_dom_heuristic.py", "    shr_domains_stack[cp_cur_idx, dom_idx, MIN] = value + 1", "    shr_domains_stack[cp_cur_idx, dom_idx, MIN] = value", ["C09", "C02"]),
    ("alldiff-scratch-short", "nucs/propagators/alldifferent_propagator.py", "    bounds_nb = 2 * n + 2\n    bounds = np.zeros(bounds_nb, dtype=np.int32)\n    t = np.zeros(bounds_nb, dtype=np.uint16)  # critical capacity pointers\n    d = np.zeros(bounds_nb, dtype=np.int32)  # differences between critical capacities\n    h = np.zeros(bounds_nb, dtype=np.uint16)  # Hall interval pointers\n    min_sorted_vars = np.argsort(domains[:, MIN])\n    max_sorted_vars = np.argsort(domains[:, MAX])\n    nb = update_bounds(bounds, n, domains, ranks, min_sorted_vars, max_sorted_vars)\n    return (", "    bounds_nb = 2 * n + 1\n    bounds = np.zeros(bounds_nb, dtype=np.int32)\n    t = np.zeros(bounds_nb, dtype=np.uint16)  # critical capacity pointers\n    d = np.zeros(bounds_nb, dtype=np.int32)  # differences between critical capacities\n    h = np.zeros(bounds_nb, dtype=np.uint16)  # Hall interval pointers\n    min_sorted_vars = np.argsort(domains[:, MIN])\n    max_sorted_vars = np.argsort(domains[:, MAX])\n    nb = update_bounds(bounds, n, domains, ranks, min_sorted_vars, max_sorted_vars)\n    return (", ["C16"]),
    ("element-iv-no-upper-clamp", "nucs/propagators/element_iv_propagator.py", "    i[MAX] = min(i[MAX], len(l) - 1)\n", "    i[MAX] = min(i[MAX], len(l))\n", ["C16", "C05"]),
    ("mp-blocking-get", "nucs/solvers/multiprocessing_solver.py", "            return solutions.get(timeout=QUEUE_TIMEOUT)\n        except Empty:\n            terminated = [", "            return solutions.get()\n        except Empty:\n            terminated = [", ["C18"]),
    ("mp-liveness-ignores-completed", "nucs/solvers/multiprocessing_solver.py", "                if not completed[proc_idx] and not process.is_alive()", "                if completed[proc_idx] and not process.is_alive()", ["C18"]),
    ("no-stack-check", "nucs/solvers/backtrack_solver.py", "        if stacks_top[0] + 2 >= len(shr_domains_stack):\n", "        if False and stacks_top[0] + 2 >= len(shr_domains_stack):\n", ["C19"]),
    ("stack-check-off-by-some", "nucs/solvers/backtrack_solver.py", "        if stacks_top[0] + 2 >= len(shr_domains_stack):\n", "        if stacks_top[0] >= len(shr_domains_stack):\n", ["C19"]),
    ("mp-stats-first-message", "nucs/solvers/multiprocessing_solver.py", "            proc_idx, solution, statistics = get_message(solutions, processes, completed)\n            self.statistics[proc_idx] = statistics\n            if solution is None:\n                completed[proc_idx] = True\n                nb -= 1\n            else:\n                yield solution", "            proc_idx, solution, statistics = get_message(solutions, processes, completed)\n            if self.statistics[proc_idx] is None:\n                self.statistics[proc_idx] = statistics\n            if solution is None:\n                completed[proc_idx] = True\n                nb -= 1\n            else:\n                yield solution", ["C11", "C17"]),
    ("is-solved-ignores-last-domain", "nucs/solvers/solver.py", "np.equal(shr_domains_stack[stacks_top[0], :, MIN], shr_domains_stack[stacks_top[0], :, MAX])", "np.equal(shr_domains_stack[stacks_top[0], :-1, MIN], shr_domains_stack[stacks_top[0], :-1, MAX])", ["C02", "C01"]),
    ("get-solution-offset-sign", "nucs/solvers/solver.py", "    return shr_domains_stack[stacks_top[0], dom_indices_arr, MIN] + dom_offsets_arr", "    return shr_domains_stack[stacks_top[0], dom_indices_arr, MIN] - dom_offsets_arr", ["C01", "C13"]),
    ("backtrack-no-wakeup", "nucs/solvers/choice_points.py", "    statistics[STATS_IDX_SOLVER_BACKTRACK_NB] += 1\n    add_propagators(", "    statistics[STATS_IDX_SOLVER_BACKTRACK_NB] += 1\n    if False: add_propagators(", ["C09", "C02"]),
    ("count-eq-entail-early", "nucs/propagators/count_eq_propagator.py", "    if count_min == count_max:\n        return PROP_ENTAILMENT", "    if count_min + 1 >= count_max:\n        return PROP_ENTAILMENT", ["C07", "C02"]),
    ("count-eq-weaker", "nucs/propagators/count_eq_propagator.py", "    if count_max == counter[MIN]:  # we cannot have more domains different from a", "    if False and count_max == counter[MIN]:  # we cannot have more domains different from a", ["C14"]),
    ("max-leq-entail-flip", "nucs/propagators/max_leq_propagator.py", None, None, []),
    ("exactly-eq-entail-early", "nucs/propagators/exactly_eq_propagator.py", None, None, []),
    ("max-regret-first-tie", "nucs/heuristics/max_regret_var_heuristic.py", "    max_regret = -1  #", "    max_regret = 0  #", ["C04"]),
    ("split-capping", "nucs/problems/problem.py", "        split_nb = min(split_nb, shr_dom_sz)  # a domain cannot be split in more parts than it has values\n", "", ["C12"]),
    ("split-lose-last", "nucs/problems/problem.py", "(0 if split_idx < shr_dom_sz % split_nb else 1)", "(0 if split_idx + 1 < shr_dom_sz % split_nb else 1)", ["C12", "C11"]),
    ("init-offsets-wrong-var", "nucs/problems/problem.py", "self.props_dom_offsets[var_start:var_end] = self.dom_offsets_arr[prop_vars]", "self.props_dom_offsets[var_start:var_end] = self.dom_offsets_arr[self.dom_indices_arr[prop_vars]]", ["C13", "C01"]),
    ("alldiff-pathmin", "nucs/propagators/alldifferent_propagator.py", None, None, []),
]


def sh(cmd, **kw):
    return subprocess.run(cmd, shell=True, capture_output=True, text=True, **kw)


def main():
    names = sys.argv[1:]
    scratch = "/tmp/wt/hm.%d" % os.getpid()
    work = "/tmp/wt/hmwork.%d" % os.getpid()
    if sh("git -C %s worktree add -q --detach %s HEAD" % (REPO, scratch)).returncode != 0:
        print("cannot create scratch worktree")
        return 2
    env = dict(os.environ, NUCS_REPO=scratch, VERIF_WORK=work + "/work", VERIF_EVIDENCE_DIR=work + "/ev", VERIF_REPLAY_DIR=work + "/rp")
    rows = []
    try:
        for name, f, old, new, props in M:
            if old is None or (names and name not in names):
                continue
            path = "%s/%s" % (scratch, f)
            s = open(path).read()
            if s.count(old) != 1:
                print("%s: pattern found %d times, skipped" % (name, s.count(old)), flush=True)
                continue
            try:
                open(path, "w").write(s.replace(old, new))
                for p in props:
                    t0 = time.time()
                    r = sh("cd /verif && ./check.py %s --tier quick" % p, env=env)
                    first = next((l for l in r.stdout.splitlines() if l.startswith("violation:")), "")
                    rows.append((name, p, r.returncode, time.time() - t0, first[:200]))
                    print("%-28s %s rc=%d %.0fs %s" % rows[-1], flush=True)
            finally:
                sh("git -C %s checkout -- ." % scratch)
    finally:
        sh("git -C %s worktree remove --force %s" % (REPO, scratch))
        sh("rm -rf %s" % work)
    missed = [r for r in rows if r[2] != 1]
    print("caught %d / %d" % (len(rows) - len(missed), len(rows)))
    return 0


if __name__ == "__main__":
    sys.exit(main())
