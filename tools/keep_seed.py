#!/usr/bin/env python3
"""usage: tools/keep_seed.py <name> <worktree> <property> <round> <checks,comma> <summary> <needs>
Confirms a change delivered by a seeding sub-agent (tools/confirm_seed.sh), writes seeded/<name>/meta.json, runs the
quick checks against it (tools/seed_matrix.py) and removes the scratch worktree."""
import json, os, subprocess, sys
name, wt, prop, rnd, checks, summary, needs = sys.argv[1:8]
d = "/verif/seeded/" + name
r = subprocess.run(["/verif/tools/confirm_seed.sh", name, wt], capture_output=True, text=True)
log = open(d + "/confirm.log").read().splitlines() if os.path.exists(d + "/confirm.log") else r.stdout.splitlines()
base = subprocess.run("git -C /repo rev-parse --short HEAD", shell=True, capture_output=True, text=True).stdout.strip()
meta = {"property": prop, "summary": summary, "needs": needs, "checks": checks.split(","), "also_breaks": [], "round": int(rnd),
        "confirmed": {"how": "tools/confirm_seed.sh in a scratch worktree of /repo (removed afterwards): repository test-suite with the change, demo.py with and without the change in both execution modes", "log": log},
        "patch_base": "/repo " + base}
json.dump(meta, open(d + "/meta.json", "w"), indent=1)
print("\n".join(log))
ok = any("192 passed" in l for l in log)
exits = [l for l in log if l.startswith("exit=")]
print("CONFIRM", name, "suite_ok=%s" % ok, exits)
subprocess.run(["git", "-C", "/repo", "worktree", "remove", "--force", wt])
subprocess.run(["/verif/tools/seed_matrix.py", name])
