"""Per-property texts of MANIFEST.json (level, trusted base, technique)."""

_BOX_NOTE = (
    "Trusted: the reference relations of vlib/catalogue.py (read off docs/source/reference.rst and the docstrings), "
    "Python's itertools brute force, Hypothesis; the propagators are called as plain Python (NUMBA_DISABLE_JIT=1) on int32 arrays "
    "exactly as the engine calls them. Not covered: boxes beyond the generated sizes; compiled-mode-only miscompilations "
    "(C15 compares the modes)."
)

CHECKS = {
    "C05": {
        "text": "Every (type, parameters, box) of a small scope is enumerated exhaustively and Hypothesis generates larger boxes; "
        "each filtering call is compared with the brute-force solution set of its input box (containment, no solution lost, "
        "INCONSISTENCY only on an empty solution set). Exploration is the right level: the quantifier is over all boxes, "
        "the oracle is exact, and the small scope is complete for the off-by-one class of defects. Fifteen scopes of 32767..65535 variables with analytically known solutions (alldifferent / gcc on pairwise disjoint domains, no_sub_cycle with one ground vertex) cover the 16-bit scratch arrays. One generated box in five is the same shape moved far from zero (by about 2**7, 2**8, 2**15, 2**16, 10**6, 10**7, and 10**9 for the non-linear types; parameters moved with it), which the brute-force oracle handles unchanged (C05, C06, C07 and C14 share this generator).",
        "note": _BOX_NOTE,
        "technique": "property-based testing: exhaustive small-scope enumeration + Hypothesis boxes vs brute-force solution set",
    },
    "C06": {
        "text": "All instantiated tuples of a small scope (and random ones beyond) for every type and parameter corner: the status must be "
        "INCONSISTENCY iff the documented relation is false; every non-point box that one call collapses to a point is checked the same way.",
        "note": _BOX_NOTE + " no_sub_cycle is asserted only on permutations (documented as part of the circuit model).",
        "technique": "property-based testing: exhaustive point enumeration + Hypothesis vs documented ground relation",
    },
    "C07": {
        "text": "For the 12 types that can answer ENTAILMENT, every box of the small scope and Hypothesis boxes beyond: an ENTAILMENT answer is "
        "accepted only if every tuple of the returned box satisfies the relation (brute force); inside real searches every ENTAILMENT observed "
        "by the interposer is checked on the live box and the enabled-flag rows are compared around push/pop.",
        "note": _BOX_NOTE,
        "technique": "property-based testing: exhaustive + Hypothesis boxes, brute-force validity of entailed boxes; stateful flag-row invariant",
    },
    "C14": {
        "text": "For the documented bound-consistent types the output box must equal the brute-force bounds hull (INCONSISTENCY iff no solution) and a "
        "second call must change nothing; affine_eq must equal an independent one-round interval computation. Exhaustive small scope + Hypothesis.",
        "note": _BOX_NOTE,
        "technique": "property-based testing: exhaustive + Hypothesis boxes vs brute-force hull / reference one-round interval reasoning",
    },
}

_SOLVER_NOTE = (
    "Trusted: the reference semantics of vlib/catalogue.py and vlib/ref.py (documented relations, brute force over the cartesian product of the shared domains), "
    "Hypothesis, and - for the interposed interpreted runs - that NUMBA_DISABLE_JIT=1 executes the same source as the compiled engine (C15 compares the two modes; the same cases "
    "are also run compiled through the public API). gcc with a zero upper capacity is excluded from the generators (known finding K1) and counted. Not covered: problems larger than the generated sizes."
)

CHECKS.update({
    "C01": {
        "text": "Generated problems (all 21 constraint types mixed, shared domains with offsets, repeated variables/domains in a scope, negative and singleton domains) x all solver configurations x every API path "
        "(find_all, solve_all, iterator and prefixes, minimize, maximize, MultiprocessingSolver over split with a drawn delivery schedule); every assignment handed to the caller is evaluated against an independent ground checker. "
        "Some runs are the second complete search of their solver object (any of find_all / iteration / solve_all / minimise / maximise, then another). "
        "Exploration: the oracle needs no brute force, so it scales to the largest generated problems, in both execution modes.",
        "note": _SOLVER_NOTE,
        "technique": "property-based testing: Hypothesis problems x configurations x API paths vs independent ground-satisfaction oracle (interpreted + compiled)",
    },
    "C02": {
        "text": "Generated problems small enough for exact brute force x a list of configurations per problem (thorough: all 40) x posting orders: the multiset yielded by the iterator must equal the brute-force solution multiset "
        "(extra / missing / duplicated reported separately), the iterator must stop, and a further next() must not yield anything. For a drawn part of the configurations the enumeration is the second complete search on its solver object (after find_all / a full iteration / solve_all / "
        "a minimisation or maximisation), with the same oracle. One problem profile moves all domains far from zero (around 2**15, 2**16, 10**6, 5*10**7).",
        "note": _SOLVER_NOTE,
        "technique": "property-based testing: differential against brute-force enumeration of the cartesian product, across configurations and posting orders",
    },
    "C03": {
        "text": "Generated problem x objective variable (drawn from: any / in some scope / in no scope; sharing a domain with an offset or not) x direction x configuration, sequentially and distributed over split() with a drawn "
        "delivery schedule: result None iff brute force finds no solution, otherwise a solution whose objective value equals the brute-force optimum; termination through deterministic progress budgets. A quarter of the sequential cases first run another complete search (the same optimisation, another one, or an enumeration) on the same solver object.",
        "note": _SOLVER_NOTE,
        "technique": "property-based testing: differential against brute-force optimum; progress-budget termination oracle",
    },
    "C04": {
        "text": "Termination is decided without a clock: in interposed interpreted mode every propagation pass may execute at most (S+1)*P+P propagators (S = total domain size, P = constraints), a search at most #points branching "
        "decisions (times the objective's domain size for optimisation); a wall-clock trigger only nominates a case for a re-run under a per-call line budget. Variable heuristics must return a non-instantiated decision domain "
        "whenever one exists. Generators put weight on the structures named in the property (duplicated sub-cycle constraints, repeated shared domains, duplicated constraints, tied cost tables). Compiled-mode hangs are "
        "caught by the driver's per-case watchdog in the other solver-level checks and confirmed in fresh processes.",
        "note": _SOLVER_NOTE + " The progress bound assumes that an execution that narrows no view wakes nobody, which is what the engine implements after the GROUND fix.",
        "technique": "property-based testing: deterministic progress-measure budgets inside interposed real searches (Hypothesis problems/configurations/operations)",
    },
    "C08": {
        "text": "Every non-failing exit of every propagation pass of real searches (root, after each branch, after each backtrack, inside shaving) is checked: domains non-empty and contained in the entry state, every enabled "
        "constraint re-executed on the result neither fails nor narrows (except no_sub_cycle), and for all-exact-BC problems the result equals a reference largest common fixpoint computed by chaotic iteration of brute-force hull "
        "operators - under posting-order permutations and drawn priority orders of the propagation queue (pop_propagator replaced by a schedule-following version). Plus propagator-level trigger sufficiency (fixpoint box + one "
        "unwatched bound change must neither fail nor prune) and the trigger matrix (union of masks for repeated shared domains).",
        "note": _SOLVER_NOTE,
        "technique": "property-based testing: interposed pass-exit invariants + reference fixpoint + schedule-owned propagation queue; metamorphic trigger-sufficiency cases",
    },
    "C09": {
        "text": "Model-based histories: branch(heuristic, domain) / prune / entail / backtrack operation sequences are applied to real stack arrays by calling the shipped value heuristics and backtrack() directly (both modes) and to a "
        "Python list-of-frames model; after each step partition, untouched domains/flags/lower levels, announced events of the branch taken and of each recorded alternative, restored state and woken watchers are compared. "
        "Exhaustive over every [a,b] within [-3,6] x 5 heuristics x cost-table families.",
        "note": "Trusted: the list-of-frames model in vlib/props/c09.py, NumPy. The heuristics are called exactly as solve_one calls them. Stack overflow (beyond the height) is C19's matter and is not generated here.",
        "technique": "property-based testing: model-based (stateful) operation histories + exhaustive small scope, interpreted and compiled",
    },
    "C10": {
        "text": "Every invocation of the shaving algorithm inside real searches is observed (stack height restored, lower levels byte-identical, result contained in plain BC run on a copy of the entry state, no brute-force solution of the "
        "entry sub-box lost, failure only on solution-free sub-boxes, flags cleared only for entailed constraints), and each run is compared with the same run under plain bound consistency (solution multiset / optimum).",
        "note": _SOLVER_NOTE,
        "technique": "property-based testing: interposed invariants around each shaving call + differential shaving vs plain bound consistency",
    },
    "C11": {
        "text": "The real parent loops (solve/optimize/get_statistics) and the real worker entry points run over an in-process transport owned by the harness: Hypothesis draws the merge order of the workers' message streams and the "
        "statistics snapshots, so every interleaving is reachable and shrinkable. Oracle: one sequential BacktrackSolver on the whole problem (multiset / optimum / None), exactly one get() per message sent (a get() on exhausted "
        "streams is a deadlock, fewer is a lost message), aggregated statistics = sum/max of the workers' final statistics. A sample runs with real forked processes.",
        "note": "Trusted: vlib/mpfake.py models multiprocessing.Queue as per-worker FIFO streams merged in any order, with statistics pickled at or after put; real OS-level races are sampled, not enumerated.",
        "technique": "property-based testing: schedule-owned message interleavings (drawn merge orders) against the sequential solver; real-process sample",
    },
    "C12": {
        "text": "Generated problem (constructor or add_variable(s) form) x variable (own/shared domain, offsets) x k from 1 to beyond the domain size: original object deep-equal before/after, sub-problems identical except the split "
        "domain, ordered partition into non-empty ranges; each sub-problem is enumerated under the progress budget, solution sets pairwise disjoint, union = brute-force solution set.",
        "note": _SOLVER_NOTE,
        "technique": "property-based testing: structural invariants of split() + differential union-of-parts vs brute force",
    },
    "C13": {
        "text": "Metamorphic: a model (generated, or a shipped one: queens, latin square, magic sequence, magic square, Schur, knapsack, circuit, Golomb) and a rewritten model (un-share domains + equalities, permute posting order, rename "
        "variables/domains, post a constraint twice, add an always-true constraint, translate a translation-invariant model, add fresh one-value variables through add_variable()/add_variables()) are both solved by nucs; the solution multisets (mapped back) and the optima must be equal. No reference solver.",
        "note": "Trusted: the rewrites of vlib/props/c13.py preserve meaning (each is a few lines, reviewed against the documented relations); Hypothesis. Cost-table heuristics are replaced by first/min for rewrites that re-index domains or values.",
        "technique": "property-based testing: metamorphic relations between a model and its meaning-preserving rewrites",
    },
    "C17": {
        "text": "Event counters kept by the interposers (constraint executions and their outcomes, executions narrowing no view, branching decisions, successful backtrack() calls, deepest level after a choice, BC / shaving passes, "
        "shaving attempts, times the search reached a solution) are compared with get_statistics() after enumeration, partial enumeration and optimisation runs; conservation laws for exhaustive BC enumeration; "
        "multiprocessing totals = sum/max over the workers' final statistics under drawn delivery orders; every message must carry a snapshot (not the live array) of the worker's statistics, and after 1 and 2 delivered solutions of a multiprocessing enumeration get_statistics() must answer and count exactly the delivered solutions.",
        "note": _SOLVER_NOTE + " 'no change' means no view was narrowed (equivalently no shared-domain change); SOLVER_BACKTRACK_NB is compared with successful backtrack() calls of any caller, as documented.",
        "technique": "property-based testing: interposed event counts vs reported statistics, conservation laws",
    },
})

CHECKS.update({
    "C15": {
        "text": "Histories inside one process (solve, create solvers, partial next(), abandon iterators, register clones of shipped propagators / heuristics / consistency algorithms and solve through the clone indices, register user-written heuristics produced by a factory (distinct functions sharing one __name__, each delegating to a shipped "
        "heuristic, so the run must equal the shipped one's), reuse one Problem "
        "object for a second solver while the first is alive): every observation (solution sequence + all 13 statistics) must equal the first observation of the same problem/configuration; the complete observation lists of a batch "
        "are then compared with a fresh process in the other execution mode (compiled vs NUMBA_DISABLE_JIT) and with a second fresh process in the same mode.",
        "note": "Trusted: Hypothesis, JSON equality of observation lists. Cost-table heuristics are not part of the histories. Cross-process failures are reported unshrunk (the comparison happens after the batch).",
        "technique": "property-based testing: operation histories with a first-observation oracle + differential across execution modes and fresh processes",
    },
    "C16": {
        "text": "Single filtering calls on boxes that stress scratch arrays and index clamping (alldifferent/gcc up to 12-16 variables with equal/nested/point bounds, element_* with index domains straddling the list ends, no_sub_cycle/scc, "
        "relation with many tuples), real searches with cost tables exactly as wide as the domains, and every shipped model built over a range of instance sizes (Golomb 2-20 marks, queens, magic sequence, Schur 1-20, quasigroups 3-9, BIBD, "
        "tournaments, circuits, TSP, sudoku, alpha, donald) and asked for its first solution where that takes seconds: under interpretation no IndexError/OverflowError may come from a nucs frame and no variable heuristic may return a negative index; the "
        "same generators run against an engine compiled with NUMBA_BOUNDSCHECK=1, whose bounds violations are captured per case (exceptions or 'Exception ignored' output on stderr).",
        "note": "Trusted: NumPy's and Numba's bounds checking. A negative index wraps silently in both and is visible only through its consequences (stated limit in DESIGN.md section 7).",
        "technique": "property-based testing: Hypothesis stress generators under interpretation and under a bounds-checked compilation",
    },
    "C18": {
        "category": "fault_enumeration",
        "text": "The fault space is enumerated with real forked processes: 1..3 (thorough 1..4) workers x victim x death point (before the first message, after 1/2(/4) messages, just before the completion marker) x kind (os._exit, uncaught "
        "exception, SIGKILL) x operation (enumerate / minimise / maximise), plus sequences of two dying workers and fault-free controls. The fault is injected from the parent by rebinding the worker entry points to a wrapper handing the "
        "victim a queue proxy that dies at the enumerated point; the real parent loop is under test. The call must return (only solutions, no duplicates) or raise within 40 s.",
        "note": "Inherently a wall-clock oracle ('does not block forever' observed as 'returns or raises within 40 s' where the fault-free call takes well under a second). Death in the middle of a pipe write is not injected.",
        "technique": "fault injection: exhaustive enumeration of worker death points/kinds with real processes, deadline oracle",
    },
    "C19": {
        "text": "Stack sweep: stack_max_height in {1,2,3,4,8,16,127,128,129,255,256,257,300,512} x problems whose search depth is height-3..height+4 x heuristics (mid pushes two levels) x BC/shaving, differential against the same run on an "
        "ample stack: either an exception / refusal, or exactly the same first m solutions and statistics. Size sweep around the 8/16-bit limits (total scope length, total parameter length, number of shared domains around 65536, algorithm "
        "index around 256, heights around 256 and 65536) on problems with an analytically known solution set. The stack sweep is repeated inside workers of the multiprocessing solver (real processes over split(), enumerate / minimise / "
        "maximise): the call must raise or return exactly what one solver with an ample stack returns. Runs in isolated compiled workers: a worker killed by a signal is a verdict (confirmed in a fresh process).",
        "note": "Trusted: the run with an ample stack as reference (its correctness is C02's matter). Sizes beyond 131080 and domain values beyond 32 bits are not generated.",
        "technique": "property-based testing: boundary sweeps (Hypothesis sampled_from around limits) with a differential ample-capacity oracle in crash-isolated workers",
    },
    "C20": {
        "text": "Every shipped model at sizes within reach, symmetry breaking on/off, BC / shaving / Golomb's own algorithm, variable and value heuristics, 1..3 workers over split(): each returned vector is checked by a definition-level "
        "validator written from the problem statement; counts and optima are compared with the literature (queens, latin squares, magic squares, Golomb, QG5) or with independent brute force (magic sequences, Schur, BIBD, tournament "
        "scheduling n=4, knapsack, circuits, TSP on generated matrices); symmetry variants must stay satisfiable exactly when the base problem is. The Golomb model is also enumerated (2..5 marks, counted against brute force, up to reflection with symmetry breaking, also as the union over split() parts) and asked for a first solution around the end of its table of known lengths (15..17 marks).",
        "note": "Trusted: the validators and brute-force counters of vlib/models.py, the cited literature values. Larger instances only with configurations that solve them in seconds; a slow case is 'inconclusive', never a violation.",
        "technique": "property-based testing: generated (model, instance, configuration) cases vs definition-level validators and independent counts",
    },
})

NOT_APPLICABLE_REASON = {}
