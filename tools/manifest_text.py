"""Per-property texts of MANIFEST.json (level, trusted base, technique)."""

_BOX_NOTE = (
    "Trusted: the reference relations of vlib/catalogue.py (read off docs/source/reference.rst and the docstrings), "
    "Python's itertools brute force, Hypothesis; the propagators are called as plain Python (NUMBA_DISABLE_JIT=1) on int32 arrays "
    "exactly as the engine calls them. Not covered: boxes beyond the generated sizes; compiled-mode-only miscompilations "
    "(C15 compares the modes)."
)

CHECKS = {
    "C05": {
        "text": "Every (type, parameters, box) of a small scope is enumerated exhaustively and Hypothesis generates larger boxes; "
        "each filtering call is compared with the brute-force solution set of its input box (containment, no solution lost, "
        "INCONSISTENCY only on an empty solution set). Exploration is the right level: the quantifier is over all boxes, "
        "the oracle is exact, and the small scope is complete for the off-by-one class of defects.",
        "note": _BOX_NOTE,
        "technique": "property-based testing: exhaustive small-scope enumeration + Hypothesis boxes vs brute-force solution set",
    },
    "C06": {
        "text": "All instantiated tuples of a small scope (and random ones beyond) for every type and parameter corner: the status must be "
        "INCONSISTENCY iff the documented relation is false; every non-point box that one call collapses to a point is checked the same way.",
        "note": _BOX_NOTE + " no_sub_cycle is asserted only on permutations (documented as part of the circuit model).",
        "technique": "property-based testing: exhaustive point enumeration + Hypothesis vs documented ground relation",
    },
    "C07": {
        "text": "For the 12 types that can answer ENTAILMENT, every box of the small scope and Hypothesis boxes beyond: an ENTAILMENT answer is "
        "accepted only if every tuple of the returned box satisfies the relation (brute force); inside real searches every ENTAILMENT observed "
        "by the interposer is checked on the live box and the enabled-flag rows are compared around push/pop.",
        "note": _BOX_NOTE,
        "technique": "property-based testing: exhaustive + Hypothesis boxes, brute-force validity of entailed boxes; stateful flag-row invariant",
    },
    "C14": {
        "text": "For the documented bound-consistent types the output box must equal the brute-force bounds hull (INCONSISTENCY iff no solution) and a "
        "second call must change nothing; affine_eq must equal an independent one-round interval computation. Exhaustive small scope + Hypothesis.",
        "note": _BOX_NOTE,
        "technique": "property-based testing: exhaustive + Hypothesis boxes vs brute-force hull / reference one-round interval reasoning",
    },
}

NOT_APPLICABLE_REASON = {}
