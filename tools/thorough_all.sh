#!/bin/sh
# every check once in the thorough tier on the unchanged tree; one line per check
cd "$(dirname "$0")/.."
sh ./setup.sh >/dev/null 2>&1
for p in ${PROPS:-C05 C06 C07 C14 C09 C01 C02 C03 C04 C08 C10 C17 C11 C12 C13 C15 C16 C18 C19 C20}; do
  s=$(date +%s)
  out=$(VERIF_SEED=${VERIF_SEED:-1} ./check.py $p --tier thorough 2>&1); rc=$?
  echo "$p rc=$rc $(( $(date +%s) - s ))s $(echo "$out" | grep -E 'tier=' | tail -1)"
  [ $rc -ne 0 ] && echo "$out" | grep -E "^violation|HARNESS|VIOLATION|Error" | head -8
done
