#!/bin/sh
# usage: tools/try_mutant.sh <patch.diff> <PROP> [<PROP> ...]
# Applies the patch to a scratch worktree of /repo (never to /repo itself), runs the quick checks against it with
# their own work/evidence/replay directories, and removes the worktree.
P="$(readlink -f "$1")"; shift
S=/tmp/wt/mut.$$
git -C /repo worktree add -q --detach $S HEAD || exit 2
trap 'git -C /repo worktree remove --force $S; rm -rf /tmp/wt/mutwork.$$' EXIT INT TERM
git -C $S apply "$P" || { echo "patch does not apply"; exit 2; }
cd /verif
for prop in "$@"; do
  s=$(date +%s)
  out=$(NUCS_REPO=$S VERIF_WORK=/tmp/wt/mutwork.$$/work VERIF_EVIDENCE_DIR=/tmp/wt/mutwork.$$/ev VERIF_REPLAY_DIR=/tmp/wt/mutwork.$$/rp VERIF_SEED=${VERIF_SEED:-1} ./check.py $prop --tier ${TIER:-quick} 2>&1); rc=$?
  e=$(date +%s)
  echo "== $prop rc=$rc $((e-s))s"
  echo "$out" | grep -E "^violation|HARNESS|tier=" | head -${LINES_MAX:-4} | cut -c1-400
done
