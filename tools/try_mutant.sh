#!/bin/sh
# usage: tools/try_mutant.sh <patch.diff> <PROP> [<PROP> ...]   (applies to /repo, runs quick checks, reverts)
P="$1"; shift
cd /verif
git -C /repo diff --quiet || { echo "/repo is dirty"; exit 2; }
git -C /repo apply "$P" || { echo "patch does not apply"; exit 2; }
trap 'git -C /repo checkout -- . ; echo reverted' EXIT INT TERM
for prop in "$@"; do
  s=$(date +%s)
  out=$(VERIF_SEED=${VERIF_SEED:-1} ./check.py $prop --tier ${TIER:-quick} 2>&1); rc=$?
  e=$(date +%s)
  echo "== $prop rc=$rc $((e-s))s"
  echo "$out" | grep -E "^violation|VIOLATION|HARNESS|tier=" | head -${LINES_MAX:-6}
done
