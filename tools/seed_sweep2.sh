#!/bin/sh
SEEDS="1 8 9" exec "$(dirname "$0")/seed_sweep.sh"
