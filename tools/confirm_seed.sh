#!/bin/sh
# usage: tools/confirm_seed.sh <name> <worktree> : confirms a seeded change in its scratch worktree and stores it
# under /verif/seeded/<name>/ (patch.diff, demo.py, notes.md, confirm.log).  The worktree is left with the change applied.
N="$1"; WT="$2"; D=/verif/seeded/$N
mkdir -p $D
cd $WT || exit 2
git diff -- nucs > $D/patch.diff
cp _seed/demo.py $D/demo.py; cp _seed/notes.md $D/notes.md 2>/dev/null
L=$D/confirm.log; : > $L
rm -rf $WT/.nbcache
echo "## test-suite with the change" >> $L
NUMBA_CACHE_DIR=$WT/.nbcache /venv/bin/python -m pytest -q -p no:cacheprovider --timeout=900 2>&1 | tail -1 >> $L
echo "## demo with the change (compiled)" >> $L
NUMBA_CACHE_DIR=$WT/.nbcache timeout 900 /venv/bin/python _seed/demo.py > /tmp/demo_$N.out 2>&1; echo "exit=$?" >> $L; tail -3 /tmp/demo_$N.out >> $L
echo "## demo with the change (NUMBA_DISABLE_JIT=1)" >> $L
NUMBA_DISABLE_JIT=1 timeout 900 /venv/bin/python _seed/demo.py > /tmp/demo_$N.out 2>&1; echo "exit=$?" >> $L
git apply -R $D/patch.diff || { echo "cannot reverse" >> $L; exit 2; }
rm -rf $WT/.nbcache
echo "## demo without the change (compiled)" >> $L
NUMBA_CACHE_DIR=$WT/.nbcache timeout 900 /venv/bin/python _seed/demo.py > /tmp/demo_$N.out 2>&1; echo "exit=$?" >> $L
echo "## demo without the change (NUMBA_DISABLE_JIT=1)" >> $L
NUMBA_DISABLE_JIT=1 timeout 900 /venv/bin/python _seed/demo.py > /tmp/demo_$N.out 2>&1; echo "exit=$?" >> $L
git apply $D/patch.diff
rm -rf $WT/.nbcache /tmp/demo_$N.out
cat $L
