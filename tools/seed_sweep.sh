#!/bin/sh
# quietness sweep: every check at several seeds on the unchanged tree; prints one line per run
cd "$(dirname "$0")/.."
sh ./setup.sh >/dev/null 2>&1
for s in ${SEEDS:-2 3 4 5}; do
  for p in ${PROPS:-C01 C02 C03 C04 C05 C06 C07 C08 C09 C10 C11 C12 C13 C14 C15 C16 C17 C18 C19 C20}; do
    out=$(VERIF_SEED=$s ./check.py $p --tier ${TIER:-quick} 2>&1); rc=$?
    echo "seed=$s $p rc=$rc $(echo "$out" | grep -E 'tier=' | tail -1)"
    [ $rc -ne 0 ] && echo "$out" | grep -E "^violation|HARNESS|VIOLATION|Error" | head -5
  done
done
