#!/usr/bin/env python3
"""Regenerates MANIFEST.json from the property registry (vlib.props.MODULES) and tools/manifest_text.py."""

import json
import os
import sys

HERE = os.path.dirname(os.path.dirname(os.path.abspath(__file__)))
sys.path.insert(0, HERE)
sys.path.insert(0, os.path.join(HERE, "tools"))

from manifest_text import CHECKS, NOT_APPLICABLE_REASON  # noqa: E402

from vlib.props import MODULES  # noqa: E402

props = [json.loads(l) for l in open(os.path.join(HERE, "properties.jsonl"))]
ids = [p["id"] for p in props]

checks = []
na = []
for pid in ids:
    if pid in MODULES and pid in CHECKS:
        c = CHECKS[pid]
        checks.append(
            {
                "property_id": pid,
                "quick_cmd": "./check.py %s --tier quick" % pid,
                "thorough_cmd": "./check.py %s --tier thorough" % pid,
                "evidence_file": "evidence/%s.json" % pid,
                "replay_cmd_template": "./check.py %s --replay {path}" % pid,
                "engine": "pbt",
                "level_claimed": {"category": c.get("category", "exploration"), "text": c["text"], "design_ref": c.get("design_ref", "DESIGN.md section 4, " + pid)},
                "level_note": c["note"],
                "technique": c["technique"],
            }
        )
    else:
        na.append({"property_id": pid, "reason": NOT_APPLICABLE_REASON.get(pid, "check not built yet in this round; the design (DESIGN.md section 4) decides it by property-based testing")})

manifest = {
    "version": 1,
    "setup_cmd": "sh ./setup.sh",
    "hooks": {
        "guard": "NUCS_VERIF",
        "enable": "no source hooks: checks interpose on the engine from outside (NUMBA_DISABLE_JIT=1 makes every engine routine a plain Python function looked up at call time); NUCS_VERIF=1 is exported by check.py for form only",
        "baseline_off_cmd": "cd /repo && /venv/bin/python -m pytest -ra -q -p no:cacheprovider --timeout=900 --continue-on-collection-errors",
        "source_commits": [],
        "add_only": True,
    },
    "engines": [
        {
            "name": "pbt",
            "path": "check.py",
            "serves_properties": [c["property_id"] for c in checks],
            "kind_free_text": "property-based testing: Hypothesis strategies / rule-based state machines and exhaustive small-scope enumeration over generated cases, explicit oracles (reference semantics, brute force, differential, metamorphic, history invariants), sharded over 16 worker processes; interpreted-mode interposition and compiled-mode black-box runs of the code in /repo's working tree",
        }
    ],
    "checks": checks,
    "not_applicable": na,
    "notes": "Every check: exit 0 = held on everything explored (KNOWN-FINDING lines for entries of known_findings.json), exit 1 + VIOLATION line = unlisted violation (replay file under replays/), exit 2 = harness error.  VERIF_SEED and VERIF_TIER are honoured.  See DESIGN.md.",
}
json.dump(manifest, open(os.path.join(HERE, "MANIFEST.json"), "w"), indent=1)
print("MANIFEST.json: %d checks, %d not_applicable" % (len(checks), len(na)))
