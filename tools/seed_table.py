#!/usr/bin/env python3
"""Rewrites the table of seeded changes in DESIGN.md (between the SEEDED-TABLE markers) from seeded/*/meta.json."""
import json, os, re
HERE = os.path.dirname(os.path.dirname(os.path.abspath(__file__)))
S = os.path.join(HERE, "seeded")
rows = []
for name in sorted(os.listdir(S)):
    mp = os.path.join(S, name, "meta.json")
    if not os.path.exists(mp):
        continue
    m = json.load(open(mp))
    det = m.get("detection", {}).get("checks", {})
    caught = [k for k, v in det.items() if v.get("caught")]
    missed = [k for k, v in det.items() if not v.get("caught")]
    rows.append("| %s | %s | %d | %s | %s | %s | %s |" % (name, m["property"], m.get("round", 1), m["summary"].replace("|", "\\|"), m["needs"].replace("|", "\\|"), ", ".join(caught) or "-", ", ".join(missed) or "-"))
table = "| seeded change | written for | round | what was changed | what it needs to manifest | caught by (quick, seed 1) | tried, not caught |\n|---|---|---|---|---|---|---|\n" + "\n".join(rows)
p = os.path.join(HERE, "DESIGN.md")
s = open(p).read()
a, b = "<!-- SEEDED-TABLE-BEGIN -->", "<!-- SEEDED-TABLE-END -->"
assert a in s and b in s
s = s[: s.index(a) + len(a)] + "\n" + table + "\n" + s[s.index(b) :]
open(p, "w").write(s)
print(len(rows), "rows")
