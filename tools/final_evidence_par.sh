#!/bin/sh
# as final_evidence.sh, three checks at a time (C18, whose oracle is a deadline, runs alone at the end)
cd "$(dirname "$0")/.."
run() { out=$(VERIF_SEED=1 ./check.py $1 --tier quick 2>&1); rc=$?; echo "$1 rc=$rc $(echo "$out" | grep -E 'tier=' | tail -1)"; [ $rc -ne 0 ] && echo "$out" | tail -5; }
for g in "C01 C02 C03" "C04 C05 C06" "C07 C08 C09" "C10 C11 C12" "C13 C14 C15" "C16 C17 C20" "C19"; do
  for p in $g; do run $p & done; wait
done
run C18
python3-vt - <<'PY'
import json, jsonschema, glob
sch = json.load(open('/root/.vp/EVIDENCE.schema.json'))
for f in sorted(glob.glob('evidence/*.json')):
    d = json.load(open(f)); jsonschema.validate(d, sch)
    assert d['violations'] == 0, f
jsonschema.validate(json.load(open('MANIFEST.json')), json.load(open('/root/.vp/MANIFEST.schema.json')))
print('evidence and manifest valid')
PY
