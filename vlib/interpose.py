"""
Mode (I) interposition (DESIGN.md 2.1): with NUMBA_DISABLE_JIT set every engine routine of nucs is a plain
Python function that looks its callees up at call time, either in the registries
(COMPUTE_DOMAINS_FCTS, CONSISTENCY_ALG_FCTS, VAR_HEURISTIC_FCTS, DOM_HEURISTIC_FCTS) or as module globals
imported by name.  install() replaces those entries by thin wrappers around the *original* functions; the
wrappers forward to the Session that is current (or do nothing when none is).  Nothing in /repo is touched.

A Session owns:
  - event counters (what actually happened, for C17),
  - optional detailed records of filter calls / passes / choices / backtracks handed to observer callbacks,
  - the deterministic progress budgets of DESIGN.md 2.4 (C04),
  - optionally the propagation-queue schedule (C08).
"""

import importlib
import os
import signal
import sys

import numpy as np

from vlib.run import BudgetExceeded

assert os.environ.get("NUMBA_DISABLE_JIT"), "vlib.interpose needs the interpreted mode"

from vlib import nx  # noqa: E402

P = nx.P
H = nx.H
CA = nx.CA

M_BC = importlib.import_module("nucs.solvers.bound_consistency_algorithm")
M_SH = importlib.import_module("nucs.solvers.shaving_consistency_algorithm")
M_BS = importlib.import_module("nucs.solvers.backtrack_solver")
M_CP = importlib.import_module("nucs.solvers.choice_points")

CURRENT = None  # the active Session
_INSTALLED = False
ORIG = {}


class Session:
    """Receives the events of one solver run.  Subclass or set the on_* attributes to observe."""

    def __init__(self, detail=False, budget=True):
        self.detail = detail
        self.budget = budget
        self.n = {
            "filter": 0,
            "filter_inc": 0,
            "filter_ent": 0,
            "filter_nochange": 0,
            "bc": 0,
            "shaving": 0,
            "shave_try": 0,
            "shave_ok": 0,
            "shave_ko": 0,
            "choice": 0,
            "backtrack_ok": 0,
            "backtrack_fail": 0,
            "shave_backtrack": 0,
            "max_top": 0,
            "bc_inconsistent": 0,
            "ent_then_fail": 0,
            "alg_bound": 0,
            "pushes": 0,
        }
        # budgets
        self.pass_budget = None  # remaining propagator executions in the current BC pass
        self.pass_bound = None
        self.choice_budget = None  # remaining branching decisions for the whole run (set by the caller)
        self.solution_budget = None  # how many times the search may reach a solution (set by the caller)
        self.shave_budget = None  # remaining shaving attempts in the current call of the shaving algorithm
        self.shave_bound = None
        self.solution_budget_why = ""
        self.schedule = None  # optional priority list for pop_propagator (C08)
        self.in_shaving = 0
        self.observers = []  # objects with optional methods on_filter/on_pass/on_choice/on_backtrack/on_shaving
        self.cur_pass = None

    # ---- helpers used by the wrappers -------------------------------------------------------
    def count_solution(self):
        self.n["alg_bound"] += 1
        if self.budget and self.solution_budget is not None and self.n["alg_bound"] > self.solution_budget:
            raise BudgetExceeded("the search reached a solution %d times; %s" % (self.n["alg_bound"], self.solution_budget_why))

    def emit(self, name, *a):
        for o in self.observers:
            f = getattr(o, name, None)
            if f is not None:
                f(*a)


def _top_box(shr_domains_stack, stacks_top):
    return shr_domains_stack[int(stacks_top[0])].copy()


def _wrap_compute(i, orig):
    def compute_domains(domains, params):
        s = CURRENT
        if s is None:
            return orig(domains, params)
        if s.budget and s.pass_budget is not None:
            s.pass_budget -= 1
            if s.pass_budget < 0:
                raise BudgetExceeded("one propagation pass executed more than (S+1)*P+P = %d propagators" % s.pass_bound)
        if s.cur_pass is not None and s.detail:
            _close_exec(s)
            cp = s.cur_pass
            cp["snap"] = cp["shr"][cp["top"]].copy()
            cp["adds"] = []
            cp["who"] = i
        inbox = domains.copy()
        status = orig(domains, params)
        s.n["filter"] += 1
        if status == nx.PROP_INCONSISTENCY:
            s.n["filter_inc"] += 1
        else:
            if status == nx.PROP_ENTAILMENT:
                s.n["filter_ent"] += 1
            # the write-back narrows a shared domain iff some view was narrowed
            if not ((domains[:, 0] > inbox[:, 0]).any() or (domains[:, 1] < inbox[:, 1]).any()):
                s.n["filter_nochange"] += 1
        if s.cur_pass is not None:
            s.cur_pass["last"] = (i, status)
        if s.detail:
            s.emit("on_filter", i, inbox, params, int(status), domains)
        return status

    compute_domains.__wrapped__ = orig
    return compute_domains


def _close_exec(s):
    """The write-back of the execution that has just finished: every bound it moved must have been announced."""
    cp = s.cur_pass
    if cp is None or cp["snap"] is None:
        return
    cur = cp["shr"][cp["top"]]
    snap = cp["snap"]
    cp["snap"] = None
    changed = np.nonzero((cur[:, 0] != snap[:, 0]) | (cur[:, 1] != snap[:, 1]))[0]
    for d in changed:
        d = int(d)
        need = (1 if cur[d, 0] > snap[d, 0] else 0) | (2 if cur[d, 1] < snap[d, 1] else 0)
        if cur[d, 0] == cur[d, 1]:
            need |= 4
        got = 0
        for dd, ev in cp["adds"]:
            if dd == d:
                got |= ev
        if need & ~got:
            s.emit("on_unannounced", cp["who"], d, snap[d].tolist(), cur[d].tolist(), need, got)


def _wrap_add_propagators(orig):
    def add_propagators(triggered_propagators, not_entailed_propagators, triggers, dom_idx, events):
        s = CURRENT
        if s is not None and s.cur_pass is not None and s.detail:
            s.cur_pass["adds"].append((int(dom_idx), int(events)))
        return orig(triggered_propagators, not_entailed_propagators, triggers, dom_idx, events)

    add_propagators.__wrapped__ = orig
    return add_propagators


def _wrap_bc(orig):
    def bound_consistency_algorithm(*a):
        s = CURRENT
        if s is None:
            return orig(*a)
        (statistics, algorithms, var_bounds, param_bounds, dom_indices_arr, dom_offsets_arr, props_dom_indices, props_dom_offsets, props_parameters, triggers, shr_domains_stack, not_entailed, dom_update_stack, stacks_top, triggered, addrs, decision_domains) = a
        top = int(stacks_top[0])
        before = shr_domains_stack[top].copy()
        size = int(np.maximum(before[:, 1] - before[:, 0] + 1, 0).sum())
        nprop = len(algorithms)
        saved_budget, saved_bound, saved_pass = s.pass_budget, s.pass_bound, s.cur_pass
        s.pass_bound = (size + 1) * nprop + nprop
        s.pass_budget = s.pass_bound
        s.cur_pass = {"changes": 0, "shr": shr_domains_stack, "top": top, "snap": None, "adds": [], "who": None}
        s.n["bc"] += 1
        try:
            status = orig(*a)
            if s.detail and status != nx.PROBLEM_INCONSISTENT:
                _close_exec(s)
            if status == nx.PROBLEM_INCONSISTENT and s.cur_pass.get("last", (None, None))[1] == nx.PROP_ENTAILMENT:
                # the last execution answered ENTAILMENT but its write-back emptied a domain: its outcome is the inconsistency
                s.n["ent_then_fail"] += 1
        finally:
            s.pass_budget, s.pass_bound, s.cur_pass = saved_budget, saved_bound, saved_pass
        if status == nx.PROBLEM_INCONSISTENT:
            s.n["bc_inconsistent"] += 1
        elif status == nx.PROBLEM_BOUND and s.in_shaving == 0:
            s.count_solution()
        if s.detail:
            s.emit("on_pass", "bc", before, shr_domains_stack[top], int(status), a, s.in_shaving > 0)
        return status

    bound_consistency_algorithm.__wrapped__ = orig
    return bound_consistency_algorithm


def _wrap_shaving(orig):
    def shaving_consistency_algorithm(*a):
        s = CURRENT
        if s is None:
            return orig(*a)
        shr_domains_stack, stacks_top = a[10], a[13]
        top = int(stacks_top[0])
        before = shr_domains_stack[top].copy()
        entry = None
        if s.detail:
            entry = {
                "below": shr_domains_stack[:top].copy(),
                "flags_below": a[11][:top].copy(),
                "upd_below": a[12][:top].copy(),
                "flags": a[11][top].copy(),
                "triggered": a[14].copy(),
                "top": top,
            }
        s.n["shaving"] += 1
        s.in_shaving += 1
        size = int(np.maximum(before[:, 1] - before[:, 0] + 1, 0).sum())
        saved_shave = (s.shave_budget, s.shave_bound)
        s.shave_bound = (size + 1) * (2 * len(before) + 1)
        s.shave_budget = s.shave_bound
        try:
            status = orig(*a)
        finally:
            s.in_shaving -= 1
            s.shave_budget, s.shave_bound = saved_shave
        if status == nx.PROBLEM_BOUND:
            s.count_solution()
        if s.detail:
            s.emit("on_shaving", before, entry, int(status), a)
        return status

    shaving_consistency_algorithm.__wrapped__ = orig
    return shaving_consistency_algorithm


def _wrap_var_heuristic(i, orig):
    def var_heuristic(params, decision_domains, shr_domains_stack, stacks_top):
        s = CURRENT
        r = orig(params, decision_domains, shr_domains_stack, stacks_top)
        if s is not None and s.detail:
            s.emit("on_var_choice", i, int(r), decision_domains, shr_domains_stack, stacks_top)
        return r

    var_heuristic.__wrapped__ = orig
    return var_heuristic


def _wrap_dom_heuristic(i, orig):
    def dom_heuristic(params, shr_domains_stack, not_entailed, dom_update_stack, stacks_top, dom_idx):
        s = CURRENT
        if s is None:
            return orig(params, shr_domains_stack, not_entailed, dom_update_stack, stacks_top, dom_idx)
        if s.budget and s.choice_budget is not None:
            s.choice_budget -= 1
            if s.choice_budget < 0:
                raise BudgetExceeded("more branching decisions than the search space has points (%d)" % s.choice_bound)
        top = int(stacks_top[0])
        before = shr_domains_stack[top].copy() if s.detail else None
        flags = not_entailed[top].copy() if s.detail else None
        events = orig(params, shr_domains_stack, not_entailed, dom_update_stack, stacks_top, dom_idx)
        s.n["choice"] += 1
        newtop = int(stacks_top[0])
        s.n["pushes"] += newtop - top
        if newtop > s.n["max_top"]:
            s.n["max_top"] = newtop
        if s.detail:
            s.emit("on_choice", i, int(dom_idx), top, newtop, before, flags, int(events), shr_domains_stack, not_entailed, dom_update_stack)
        return events

    dom_heuristic.__wrapped__ = orig
    return dom_heuristic


def _wrap_backtrack(orig, where):
    def backtrack(statistics, not_entailed, dom_update_stack, stacks_top, triggered, triggers):
        s = CURRENT
        if s is None:
            return orig(statistics, not_entailed, dom_update_stack, stacks_top, triggered, triggers)
        top = int(stacks_top[0])
        r = orig(statistics, not_entailed, dom_update_stack, stacks_top, triggered, triggers)
        if where == "shaving":
            s.n["shave_backtrack"] += 1
        elif r:
            s.n["backtrack_ok"] += 1
        else:
            s.n["backtrack_fail"] += 1
        if s.detail:
            s.emit("on_backtrack", where, top, bool(r), not_entailed, dom_update_stack, stacks_top, triggered, triggers)
        return r

    backtrack.__wrapped__ = orig
    return backtrack


def _wrap_pop(orig):
    def pop_propagator(triggered_propagators, previous_prop_idx):
        s = CURRENT
        if s is None or s.schedule is None:
            return orig(triggered_propagators, previous_prop_idx)
        # same contract as the original (any triggered propagator other than the previous one first, the
        # previous one only when nothing else is left), but the choice follows the drawn priority order
        n = len(triggered_propagators)
        order = s.schedule(n)
        for prop_idx in order:
            if triggered_propagators[prop_idx] and prop_idx != previous_prop_idx:
                triggered_propagators[prop_idx] = False
                return prop_idx
        return orig(triggered_propagators, previous_prop_idx)

    pop_propagator.__wrapped__ = orig
    return pop_propagator


_IDX_CACHE = {}


def nx_idx(name):
    if name not in _IDX_CACHE:
        import nucs.constants as C

        _IDX_CACHE[name] = getattr(C, name)
    return _IDX_CACHE[name]


def install():
    """Idempotent.  Replaces registry entries and module globals by wrappers around the originals."""
    global _INSTALLED
    if _INSTALLED:
        return
    _INSTALLED = True
    # propagators (the registry may contain the same function twice: min_geq)
    for i, f in enumerate(list(P.COMPUTE_DOMAINS_FCTS)):
        P.COMPUTE_DOMAINS_FCTS[i] = _wrap_compute(i, f)
    # consistency algorithms
    bc_orig = M_BC.bound_consistency_algorithm
    sh_orig = M_SH.shaving_consistency_algorithm
    ORIG["bc"], ORIG["shaving"] = bc_orig, sh_orig
    bc_w = _wrap_bc(bc_orig)
    sh_w = _wrap_shaving(sh_orig)
    for i, f in enumerate(list(CA.CONSISTENCY_ALG_FCTS)):
        if f is bc_orig:
            CA.CONSISTENCY_ALG_FCTS[i] = bc_w
        elif f is sh_orig:
            CA.CONSISTENCY_ALG_FCTS[i] = sh_w
    M_SH.bound_consistency_algorithm = bc_w  # BC passes run by shaving are observed too
    ORIG["bc_wrapped"] = bc_w
    # heuristics
    for i, f in enumerate(list(H.VAR_HEURISTIC_FCTS)):
        H.VAR_HEURISTIC_FCTS[i] = _wrap_var_heuristic(i, f)
    for i, f in enumerate(list(H.DOM_HEURISTIC_FCTS)):
        H.DOM_HEURISTIC_FCTS[i] = _wrap_dom_heuristic(i, f)
    # shaving attempts (shave_bound is looked up by name inside the shaving algorithm)
    ORIG["shave_bound"] = M_SH.shave_bound

    def shave_bound(*a):
        s_ = CURRENT
        before = None
        if s_ is not None and s_.detail:
            # a[12] = shr_domains_stack, a[15] = stacks_top, a[1] = dom_idx
            before = a[12][int(a[15][0]), int(a[1])].copy()
        if s_ is not None and s_.budget and s_.shave_budget is not None:
            s_.shave_budget -= 1
            if s_.shave_budget < 0:
                raise BudgetExceeded("one call of the shaving algorithm made more than (S+1)*(2D+1) = %d shaving attempts" % s_.shave_bound)
        r = ORIG["shave_bound"](*a)
        if s_ is not None:
            s_.n["shave_try"] += 1
            s_.n["shave_ok" if r else "shave_ko"] += 1
            if s_.detail:
                s_.emit("on_shave", int(a[0]), int(a[1]), bool(r), before, a)
        return r

    M_SH.shave_bound = shave_bound
    # backtrack (imported by name in the solver and in shaving)
    ORIG["backtrack"] = M_CP.backtrack
    M_BS.backtrack = _wrap_backtrack(M_CP.backtrack, "solver")
    M_SH.backtrack = _wrap_backtrack(M_CP.backtrack, "shaving")
    # announcements of the write-back (add_propagators is imported by name in the propagation loop)
    M_BC.add_propagators = _wrap_add_propagators(M_BC.add_propagators)
    # propagation queue
    ORIG["pop"] = M_BC.pop_propagator
    M_BC.pop_propagator = _wrap_pop(M_BC.pop_propagator)


def wrap_custom_bc_callers(module):
    """A model with its own consistency algorithm (golomb) calls BC through its module global."""
    if getattr(module, "bound_consistency_algorithm", None) is ORIG.get("bc"):
        module.bound_consistency_algorithm = ORIG["bc_wrapped"]


class use:
    """with use(session): ... — makes the session current for the wrappers."""

    def __init__(self, session):
        self.s = session

    def __enter__(self):
        global CURRENT
        install()
        self.prev = CURRENT
        CURRENT = self.s
        return self.s

    def __exit__(self, *exc):
        global CURRENT
        CURRENT = self.prev
        return False


# ----------------------------------------------------------------------------------------------
# hang trigger (wall clock, only nominates a case) and deterministic line budget (decides)
# ----------------------------------------------------------------------------------------------
class HangSuspect(BaseException):
    """Raised by the alarm; BaseException so that no engine/except Exception can swallow it."""


def _on_alarm(signum, frame):
    raise HangSuspect()


def with_alarm(seconds, fn, *a, **kw):
    old = signal.signal(signal.SIGALRM, _on_alarm)
    signal.setitimer(signal.ITIMER_REAL, seconds)
    try:
        return fn(*a, **kw)
    finally:
        signal.setitimer(signal.ITIMER_REAL, 0)
        signal.signal(signal.SIGALRM, old)


LINE_BUDGET = 200000


def with_line_budget(fn, *a, budget=LINE_BUDGET, **kw):
    """
    Runs fn counting executed source lines inside nucs/propagators and nucs/heuristics frames *per call of a
    propagator/heuristic*; raises BudgetExceeded when one call executes more than `budget` lines.
    (sys.settrace: slow, used only to confirm a hang suspect deterministically.)
    """
    state = {"depth": 0, "count": 0, "total": 0}
    total_budget = 40 * budget  # all nucs frames together (loops of the engine itself); cases normally execute < 10^5 lines

    def local(frame, event, arg):
        if event == "line":
            state["count"] += 1
            if state["count"] > budget:
                sys.settrace(None)
                raise BudgetExceeded("a single propagator/heuristic call executed more than %d lines (%s:%d)" % (budget, os.path.basename(frame.f_code.co_filename), frame.f_lineno))
        return local

    def engine_local(frame, event, arg):
        if event == "line":
            state["total"] += 1
            if state["total"] > total_budget:
                sys.settrace(None)
                raise BudgetExceeded("the engine executed more than %d lines on this case (%s:%d)" % (total_budget, os.path.basename(frame.f_code.co_filename), frame.f_lineno))
        return engine_local

    def tracer(frame, event, arg):
        if event != "call":
            return None
        fn_ = frame.f_code.co_filename
        if "/nucs/propagators/" in fn_ or "/nucs/heuristics/" in fn_:
            name = frame.f_code.co_name
            if name.startswith("compute_domains") or name.endswith("_heuristic"):
                state["count"] = 0  # a new top-level call
            return local
        if "/nucs/" in fn_:
            return engine_local
        return None

    sys.settrace(tracer)
    try:
        return fn(*a, **kw)
    finally:
        sys.settrace(None)
