"""
Reference semantics, independent of nucs (DESIGN.md 2.4): ground satisfaction of a problem, brute-force
enumeration over the cartesian product of the shared domains, hulls, one-round interval reasoning for
the linear equality, and the reference greatest fixpoint of exact bound-consistency operators.

Problem case (JSON):
  {"shr": [[lo,hi],...], "idx": [shared domain of variable v], "off": [offset of variable v],
   "props": [{"type": name, "vars": [variable indices], "params": [...]}, ...]}
"""

from itertools import product

from vlib.catalogue import TYPES, box_points, hull


def var_values(case, shr_point):
    """Variable vector for one point of the shared domains."""
    return [shr_point[d] + o for d, o in zip(case["idx"], case["off"])]


def violated_constraints(case, vec):
    """
    Ground check of a variable vector against the problem (C01 oracle).
    Returns a list of human readable reasons; empty = satisfied.  A relation that is not decisive on
    this tuple (no_sub_cycle outside permutations) is not asserted.
    """
    bad = []
    nv = len(case["idx"])
    if len(vec) != nv:
        return ["vector has %d entries for %d variables" % (len(vec), nv)]
    vec = [int(x) for x in vec]
    # domain membership + offset consistency between variables of one shared domain
    shr_val = {}
    for v in range(nv):
        d = case["idx"][v]
        lo, hi = case["shr"][d]
        s = vec[v] - case["off"][v]
        if not (lo <= s <= hi):
            bad.append("variable %d = %d outside its declared domain [%d,%d]" % (v, vec[v], lo + case["off"][v], hi + case["off"][v]))
        if d in shr_val and shr_val[d] != s:
            bad.append("variables sharing domain %d differ from their declared offsets" % d)
        shr_val.setdefault(d, s)
    for k, pr in enumerate(case["props"]):
        t = [vec[v] for v in pr["vars"]]
        r = TYPES[pr["type"]].rel(t, list(pr["params"]))
        if r is False:
            bad.append("constraint %d %s%s violated by %s" % (k, pr["type"], pr["params"], t))
    return bad


def shr_box_size(case, box=None):
    s = 1
    for lo, hi in box if box is not None else case["shr"]:
        s *= max(0, hi - lo + 1)
    return s


def undecided(case, vec):
    """True if some posted relation is not decisive on the vector (then brute force has no verdict)."""
    for pr in case["props"]:
        t = [vec[v] for v in pr["vars"]]
        if TYPES[pr["type"]].rel(t, list(pr["params"])) is None:
            return True
    return False


def brute_force(case, box=None):
    """
    All solutions as (shared point, variable vector) over the cartesian product of the shared domains
    (or of the given sub-box of shared domains).  Returns (solutions, undecided_points).
    """
    sols = []
    und = 0
    props = [(TYPES[p["type"]].rel, p["vars"], list(p["params"])) for p in case["props"]]
    for pt in box_points(box if box is not None else case["shr"]):
        vec = var_values(case, pt)
        ok = True
        for rel, vs, pa in props:
            r = rel([vec[v] for v in vs], pa)
            if r is None:
                ok = None  # undecided unless another constraint rejects the point
            elif not r:
                ok = False
                break
        if ok is None:
            und += 1
        elif ok:
            sols.append((pt, tuple(vec)))
    return sols, und


def views(case, shr_box, pr):
    return [[shr_box[case["idx"][v]][0] + case["off"][v], shr_box[case["idx"][v]][1] + case["off"][v]] for v in pr["vars"]]


# ----------------------------------------------------------------------------------------------
# one round of interval reasoning for sum(c_i x_i) = r  (C14, second sentence)
# ----------------------------------------------------------------------------------------------
def _ceil_div(a, b):
    return -((-a) // b)


def affine_eq_one_round(params, box):
    """
    For each variable with a non-zero coefficient, the bounds implied by the *input* bounds of the
    others.  Returns the new box or None when some domain becomes empty (in position order, like any
    implementation that stops at the first empty domain; emptiness is all that is compared).
    """
    cs, r = list(params[:-1]), params[-1]
    n = len(box)
    lo_terms = [min(c * box[i][0], c * box[i][1]) for i, c in enumerate(cs)]
    hi_terms = [max(c * box[i][0], c * box[i][1]) for i, c in enumerate(cs)]
    slo, shi = sum(lo_terms), sum(hi_terms)
    out = [list(b) for b in box]
    for i, c in enumerate(cs):
        if c == 0:
            continue
        rest_lo = slo - lo_terms[i]
        rest_hi = shi - hi_terms[i]
        # c*x in [r - rest_hi, r - rest_lo]
        a, b = r - rest_hi, r - rest_lo
        if c > 0:
            nlo, nhi = _ceil_div(a, c), b // c
        else:
            nlo, nhi = _ceil_div(b, c), a // c
        out[i][0] = max(out[i][0], nlo)
        out[i][1] = min(out[i][1], nhi)
        if out[i][0] > out[i][1]:
            return None
    return out


# ----------------------------------------------------------------------------------------------
# reference propagation: greatest common fixpoint of the exact hull operators (C08)
# ----------------------------------------------------------------------------------------------
def ref_fixpoint(case, shr_box, max_points=20000):
    """
    Chaotic iteration of "replace the views of a constraint by the hull of its solutions in the views,
    intersected back into the shared domains".  Returns the resulting shared box, or None when some
    constraint has no solution (inconsistency).  Only meaningful when every posted type is exact-BC.
    """
    box = [list(b) for b in shr_box]
    changed = True
    while changed:
        changed = False
        for pr in case["props"]:
            vb = views(case, box, pr)
            size = 1
            for lo, hi in vb:
                size *= hi - lo + 1
            if size > max_points:
                raise OverflowError("reference fixpoint too large")
            rel = TYPES[pr["type"]].rel
            pa = list(pr["params"])
            # positions are independent variables for a propagator (it sees views, not shared domains);
            # positions of one shared domain are intersected on write-back below
            sols = [t for t in product(*[range(lo, hi + 1) for lo, hi in vb]) if rel(list(t), pa)]
            if not sols:
                return None
            h = hull(sols, len(vb))
            for pos, v in enumerate(pr["vars"]):
                d = case["idx"][v]
                lo = h[pos][0] - case["off"][v]
                hi = h[pos][1] - case["off"][v]
                if lo > box[d][0]:
                    box[d][0] = lo
                    changed = True
                if hi < box[d][1]:
                    box[d][1] = hi
                    changed = True
                if box[d][0] > box[d][1]:
                    return None
    return box
