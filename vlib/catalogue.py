"""
Contract catalogue (DESIGN.md 2.3): one entry per shipped constraint type.

Everything here is independent of nucs: the documented relation of every type as a Python predicate
over a ground tuple, the parameter/domain contract used by the generators, and the class flags used
by the oracles (documented bound-consistent, able to answer ENTAILMENT, trigger masks).

A "propagator instance" is the JSON value {"type": name, "vars": [...], "params": [...]};
a "box case" is {"type": name, "params": [...], "box": [[lo, hi], ...]}.
"""

from itertools import product

EV_MIN, EV_MAX, EV_GROUND = 1, 2, 4
EV_MIN_MAX = 3


# ----------------------------------------------------------------------------------------------
# documented relations (docs/source/reference.rst and the compute_domains docstrings)
# ----------------------------------------------------------------------------------------------
def rel_affine_eq(t, p):
    return sum(c * x for c, x in zip(p[:-1], t)) == p[-1]


def rel_affine_geq(t, p):
    return sum(c * x for c, x in zip(p[:-1], t)) >= p[-1]


def rel_affine_leq(t, p):
    return sum(c * x for c, x in zip(p[:-1], t)) <= p[-1]


def rel_alldifferent(t, p):
    return len(set(t)) == len(t)


def rel_and(t, p):
    return t[-1] == (1 if all(x == 1 for x in t[:-1]) else 0)


def rel_count_eq(t, p):
    return sum(1 for x in t[:-1] if x == p[0]) == t[-1]


def rel_dummy(t, p):
    return True


def rel_element_iv(t, p):
    return 0 <= t[0] < len(p) and p[t[0]] == t[1]


def rel_element_lic(t, p):
    n = len(t)
    return 0 <= t[-1] < n - 1 and t[t[-1]] == p[0]


def rel_element_liv(t, p):
    n = len(t)
    return 0 <= t[-2] < n - 2 and t[t[-2]] == t[-1]


def rel_exactly_eq(t, p):
    return sum(1 for x in t if x == p[0]) == p[1]


def rel_exactly_true(t, p):
    return sum(1 for x in t if x == 1) == p[0]


def rel_gcc(t, p):
    m = (len(p) - 1) // 2
    v0 = p[0]
    for j in range(m):
        c = sum(1 for x in t if x == v0 + j)
        if not (p[1 + j] <= c <= p[1 + m + j]):
            return False
    return True


def rel_lexicographic_leq(t, p):
    n = len(t) // 2
    return tuple(t[:n]) <= tuple(t[n:])


def rel_max_eq(t, p):
    return max(t[:-1]) == t[-1]


def rel_max_leq(t, p):
    return max(t[:-1]) <= t[-1]


def rel_min_eq(t, p):
    return min(t[:-1]) == t[-1]


def rel_min_geq(t, p):
    return min(t[:-1]) >= t[-1]


def rel_relation(t, p):
    n = len(t)
    return any(tuple(p[k : k + n]) == tuple(t) for k in range(0, len(p), n))


def _cycle_lengths(t):
    n = len(t)
    seen = [False] * n
    lens = []
    for s in range(n):
        if not seen[s]:
            k, c = s, 0
            while not seen[k]:
                seen[k] = True
                k = t[k]
                c += 1
            lens.append(c)
    return lens


def is_permutation(t):
    n = len(t)
    return sorted(t) == list(range(n))


def rel_no_sub_cycle(t, p):
    """Only decisive on permutations of 0..n-1 (circuit model): no cycle shorter than n."""
    n = len(t)
    if not is_permutation(t):
        return None  # not decisive: nothing is asserted
    return all(c >= n for c in _cycle_lengths(t))


def rel_scc(t, p):
    """Successor graph i -> t[i] strongly connected (on a functional graph: a Hamiltonian circuit)."""
    n = len(t)
    if any(not (0 <= x < n) for x in t):
        return False
    seen = set()
    k = 0
    while k not in seen:
        seen.add(k)
        k = t[k]
    return len(seen) == n and k == 0


class CType:
    def __init__(self, name, rel, min_n, exact_bc, can_entail, boolean=False, perm=False, even=False):
        self.name = name
        self.rel = rel
        self.min_n = min_n
        self.exact_bc = exact_bc  # documented as implementing bound consistency (C14 list)
        self.can_entail = can_entail  # has a PROP_ENTAILMENT return
        self.boolean = boolean  # all domains must be within {0,1}
        self.perm = perm  # all domains must be within [0, n-1]
        self.even = even  # arity must be even


TYPES = {
    t.name: t
    for t in [
        CType("affine_eq", rel_affine_eq, 1, False, False),
        CType("affine_geq", rel_affine_geq, 1, True, True),
        CType("affine_leq", rel_affine_leq, 1, True, True),
        CType("alldifferent", rel_alldifferent, 1, True, False),
        CType("and", rel_and, 2, True, False, boolean=True),
        CType("count_eq", rel_count_eq, 2, True, True),
        CType("dummy", rel_dummy, 1, False, False),
        CType("element_iv", rel_element_iv, 2, True, True),
        CType("element_lic", rel_element_lic, 2, True, True),
        CType("element_liv", rel_element_liv, 3, True, True),
        CType("exactly_eq", rel_exactly_eq, 1, True, True),
        CType("exactly_true", rel_exactly_true, 1, True, True, boolean=True),
        CType("gcc", rel_gcc, 1, True, False),
        CType("lexicographic_leq", rel_lexicographic_leq, 2, True, True, even=True),
        CType("max_eq", rel_max_eq, 2, True, False),
        CType("max_leq", rel_max_leq, 2, True, True),
        CType("min_eq", rel_min_eq, 2, True, False),
        CType("min_geq", rel_min_geq, 2, True, True),
        CType("relation", rel_relation, 1, True, True),
        CType("no_sub_cycle", rel_no_sub_cycle, 3, False, False, perm=True),
        CType("scc", rel_scc, 2, False, False, perm=True),
    ]
}

EXACT_BC_TYPES = sorted(n for n, t in TYPES.items() if t.exact_bc)
ENTAIL_TYPES = sorted(n for n, t in TYPES.items() if t.can_entail)
ALL_TYPES = sorted(TYPES)
# attribute name of the algorithm index in nucs.propagators.propagators
ALG_ATTR = {n: "ALG_" + n.upper() for n in TYPES}


def declared_triggers(name, n, params):
    """Trigger masks the type is documented/declared to use (reference copy for C08 trigger sufficiency)."""
    if name in ("affine_geq", "affine_leq"):
        out = []
        for c in params[:-1]:
            if c == 0:
                out.append(0)
            elif (c > 0) == (name == "affine_leq"):
                out.append(EV_MIN)
            else:
                out.append(EV_MAX)
        return out
    if name == "max_leq":
        return [EV_MIN] * (n - 1) + [EV_MAX]
    if name == "min_geq":
        return [EV_MAX] * (n - 1) + [EV_MIN]
    if name == "no_sub_cycle":
        return [EV_GROUND] * n
    return [EV_MIN_MAX] * n


def relation_holds(name, tup, params):
    return TYPES[name].rel(list(tup), list(params))


def box_points(box):
    return product(*[range(lo, hi + 1) for lo, hi in box])


def box_size(box):
    s = 1
    for lo, hi in box:
        s *= max(0, hi - lo + 1)
    return s


def box_solutions(name, params, box):
    """All tuples of the box satisfying the documented relation (None-valued relations count as satisfied=unknown)."""
    rel = TYPES[name].rel
    p = list(params)
    return [t for t in box_points(box) if rel(list(t), p)]


def hull(sols, n):
    return [[min(s[i] for s in sols), max(s[i] for s in sols)] for i in range(n)]


def in_contract(name, params, box):
    """Is (params, box) inside the documented contract of the type?  Used as an assertion on generators."""
    t = TYPES[name]
    n = len(box)
    if n < t.min_n:
        return False
    if any(lo > hi for lo, hi in box):
        return False
    if t.even and n % 2:
        return False
    if t.boolean and any(lo < 0 or hi > 1 for lo, hi in box):
        return False
    if t.perm and any(lo < 0 or hi > n - 1 for lo, hi in box):
        return False
    if name.startswith("affine"):
        if len(params) != n + 1:
            return False
        mag = sum(abs(c) * max(abs(lo), abs(hi)) for c, (lo, hi) in zip(params[:-1], box)) + abs(params[-1])
        return mag < 2**30
    if name == "count_eq":
        return len(params) == 1
    if name == "element_iv":
        return n == 2 and len(params) >= 1
    if name == "element_lic":
        return len(params) == 1
    if name == "exactly_eq":
        return len(params) == 2 and 0 <= params[1] <= n
    if name == "exactly_true":
        return len(params) == 1 and 0 <= params[0] <= n
    if name == "gcc":
        if len(params) < 3 or len(params) % 2 == 0:
            return False
        m = (len(params) - 1) // 2
        v0 = params[0]
        if any(lo < v0 or hi > v0 + m - 1 for lo, hi in box):
            return False
        return all(0 <= params[1 + j] <= params[1 + m + j] for j in range(m))
    if name == "relation":
        return len(params) >= n and len(params) % n == 0
    return True
