"""
Worker entry: python -m vlib.worker --prop ID --job JSON --shard i --nshards n --seed s --tier t --out file
Exit 0 = result written (violations are data inside the result); any other exit = harness error.
"""

import argparse
import json
import os
import sys
import time
import traceback


def main():
    ap = argparse.ArgumentParser()
    ap.add_argument("--prop", required=True)
    ap.add_argument("--job", required=True)
    ap.add_argument("--shard", type=int, default=0)
    ap.add_argument("--nshards", type=int, default=1)
    ap.add_argument("--seed", type=int, default=1)
    ap.add_argument("--tier", default="quick")
    ap.add_argument("--out", required=True)
    ap.add_argument("--replay", default=None)
    a = ap.parse_args()
    t0 = time.time()
    from vlib import props

    mod = props.load(a.prop)
    if a.replay is not None:
        cases = json.load(open(a.replay))
        out = []
        for c in cases:
            try:
                v = mod.replay(c)
                out.append({"ok": bool(v.ok), "msg": v.msg})
            except Exception as e:  # noqa: BLE001 - reported as harness error for that case
                out.append({"ok": None, "msg": "harness error: %r\n%s" % (e, traceback.format_exc())})
        json.dump({"replay": out}, open(a.out, "w"))
        return 0
    job = json.loads(a.job)
    res = mod.run(job, a.shard, a.nshards, a.seed, a.tier)
    res["wall_s"] = time.time() - t0
    res["job"] = job["name"]
    res["shard"] = a.shard
    tmp = a.out + ".tmp"
    json.dump(res, open(tmp, "w"))
    os.replace(tmp, a.out)
    return 0


if __name__ == "__main__":
    try:
        sys.exit(main())
    except SystemExit:
        raise
    except BaseException:  # noqa: BLE001
        traceback.print_exc()
        sys.exit(3)
