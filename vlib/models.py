"""
Definition-level validators, independent counts and optima for the shipped models (C20).
Written from the problem statements (CSPLib / the docstrings' prose), not from the models' constraints.
Each validator returns None when the vector is a valid object, otherwise a reason.
"""

from itertools import combinations, permutations, product

# ---------------------------------------------------------------------------------------------- literature
QUEENS = {1: 1, 2: 0, 3: 0, 4: 2, 5: 10, 6: 4, 7: 40, 8: 92, 9: 352, 10: 724}
LATIN = {1: 1, 2: 2, 3: 12, 4: 576}
MAGIC_SQUARES = {3: 8, 4: 7040}  # all magic squares incl. rotations/reflections; /8 up to symmetry
GOLOMB = {2: 1, 3: 3, 4: 6, 5: 11, 6: 17, 7: 25, 8: 34, 9: 44, 10: 55}
QG5_SB = {7: 3, 8: 1, 9: 0}  # idempotent QG5 with the usual symmetry breaking a*(n-1) >= a-1


def v_queens(sol, n):
    if len(sol) != 3 * n:
        return "vector length %d" % len(sol)
    q = list(sol[:n])
    if sorted(q) != list(range(n)):
        return "columns %s are not a permutation" % q
    if len({q[i] + i for i in range(n)}) != n or len({q[i] - i for i in range(n)}) != n:
        return "two queens share a diagonal: %s" % q
    for i in range(n):
        if sol[n + i] != q[i] + i or sol[2 * n + i] != q[i] - i:
            return "diagonal variables do not match the columns"
    return None


def v_latin(mat, colors):
    n = len(colors)
    want = sorted(colors)
    for i in range(n):
        if sorted(mat[i]) != want:
            return "row %d = %s" % (i, mat[i])
        if sorted(mat[k][i] for k in range(n)) != want:
            return "column %d" % i
    return None


def v_latin_square(sol, colors):
    n = len(colors)
    mat = [list(sol[i * n : (i + 1) * n]) for i in range(n)]
    return v_latin(mat, colors)


def v_latin_rc(sol, n):
    if len(sol) != 3 * n * n:
        return "vector length %d" % len(sol)
    color = [list(sol[i * n : (i + 1) * n]) for i in range(n)]
    row = [list(sol[n * n + c * n : n * n + (c + 1) * n]) for c in range(n)]  # row[c][j] = i
    col = [list(sol[2 * n * n + i * n : 2 * n * n + (i + 1) * n]) for i in range(n)]  # col[i][c] = j
    r = v_latin(color, list(range(n)))
    if r:
        return r
    for i in range(n):
        for j in range(n):
            c = color[i][j]
            if row[c][j] != i:
                return "row model disagrees at colour %d column %d" % (c, j)
            if col[i][c] != j:
                return "column model disagrees at row %d colour %d" % (i, c)
    return None


def v_qg5(sol, n, sym):
    r = v_latin_rc(sol, n)
    if r:
        return r
    m = [list(sol[i * n : (i + 1) * n]) for i in range(n)]
    for a in range(n):
        if m[a][a] != a:
            return "not idempotent at %d" % a
    for a in range(n):
        for b in range(n):
            if m[m[m[b][a]][b]][b] != a:
                return "((b*a)*b)*b != a for a=%d b=%d" % (a, b)
    if sym:
        for i in range(1, n):
            if m[i][n - 1] < i - 1:
                return "symmetry-breaking condition violated"
    return None


def count_qg5(n):
    """Independent count of idempotent QG5 quasigroups of order n (plain DFS), for small n."""
    m = [[-1] * n for _ in range(n)]
    for a in range(n):
        m[a][a] = a
    cells = [(i, j) for i in range(n) for j in range(n) if i != j]
    count = 0

    def ok_final():
        for a in range(n):
            for b in range(n):
                if m[m[m[b][a]][b]][b] != a:
                    return False
        return True

    def rec(k):
        nonlocal count
        if k == len(cells):
            if ok_final():
                count += 1
            return
        i, j = cells[k]
        used = {m[i][x] for x in range(n)} | {m[x][j] for x in range(n)}
        for v in range(n):
            if v not in used:
                m[i][j] = v
                rec(k + 1)
                m[i][j] = -1

    rec(0)
    return count


def v_magic_square(sol, n, sym):
    if sorted(sol) != list(range(n * n)):
        return "entries are not 0..n*n-1 each once"
    s = n * (n * n - 1) // 2
    mat = [list(sol[i * n : (i + 1) * n]) for i in range(n)]
    for i in range(n):
        if sum(mat[i]) != s or sum(mat[k][i] for k in range(n)) != s:
            return "row/column %d does not sum to %d" % (i, s)
    if sum(mat[i][i] for i in range(n)) != s or sum(mat[i][n - 1 - i] for i in range(n)) != s:
        return "a diagonal does not sum to %d" % s
    return None


def v_magic_sequence(sol, n):
    for i in range(n):
        if sol[i] != sum(1 for x in sol[:n] if x == i):
            return "x_%d = %d but %d occurs %d times" % (i, sol[i], i, sum(1 for x in sol[:n] if x == i))
    return None


def count_magic_sequences(n):
    # sum of entries = n, so entries <= n; prune by sum
    cnt = 0

    def rec(prefix, total):
        nonlocal cnt
        if len(prefix) == n:
            if total == n and all(prefix[i] == prefix.count(i) for i in range(n)):
                cnt += 1
            return
        for v in range(0, n - total + 1):
            rec(prefix + [v], total + v)

    rec([], 0)
    return cnt


def golomb_index(n, i, j):
    return i * n - (i * (i + 1)) // 2 + j - i - 1


def v_golomb(sol, n):
    marks = [0] + [sol[golomb_index(n, 0, j)] for j in range(1, n)]
    if any(marks[k] >= marks[k + 1] for k in range(n - 1)):
        return "marks %s are not increasing" % marks
    seen = set()
    for i in range(n - 1):
        for j in range(i + 1, n):
            d = marks[j] - marks[i]
            if sol[golomb_index(n, i, j)] != d:
                return "distance variable (%d,%d) = %d but the marks differ by %d" % (i, j, sol[golomb_index(n, i, j)], d)
            if d in seen:
                return "distance %d occurs twice" % d
            seen.add(d)
    return None


def count_golomb(n, sym):
    """
    Number of Golomb rulers with n marks (first mark 0) of length <= 1 + 2 + ... + n(n-1)/2 (the upper bound of every distance in the
    shipped model); sym: counted up to reflection (a ruler and its mirror image are one object; for n = 2 the ruler is its own mirror).
    """
    dist_nb = n * (n - 1) // 2
    limit = dist_nb * (dist_nb + 1) // 2
    found = set()

    def rec(marks, used):
        if len(marks) == n:
            found.add(tuple(marks))
            return
        for m in range(marks[-1] + 1, limit + 1):
            ds = [m - x for x in marks]
            if any(d in used for d in ds):
                continue
            rec(marks + [m], used | set(ds))

    rec([0], frozenset())
    if not sym:
        return len(found)
    classes = set()
    for r in found:
        mirror = tuple(sorted(r[-1] - x for x in r))
        classes.add(min(r, mirror))
    return len(classes)


def v_bibd(sol, v, b, r, k, l):
    mat = [list(sol[i * b : (i + 1) * b]) for i in range(v)]
    if any(x not in (0, 1) for row in mat for x in row):
        return "non-binary entry"
    for i in range(v):
        if sum(mat[i]) != r:
            return "row %d has %d ones" % (i, sum(mat[i]))
    for j in range(b):
        if sum(mat[i][j] for i in range(v)) != k:
            return "column %d" % j
    for i1, i2 in combinations(range(v), 2):
        if sum(mat[i1][j] * mat[i2][j] for j in range(b)) != l:
            return "rows %d,%d meet %d times" % (i1, i2, sum(mat[i1][j] * mat[i2][j] for j in range(b)))
    return None


def count_bibd(v, b, r, k, l):
    rows = [c for c in product((0, 1), repeat=b) if sum(c) == r]
    cnt = 0

    def rec(chosen):
        nonlocal cnt
        if len(chosen) == v:
            if all(sum(row[j] for row in chosen) == k for j in range(b)):
                cnt += 1
            return
        for row in rows:
            if all(sum(x * y for x, y in zip(row, o)) == l for o in chosen):
                rec(chosen + [row])

    rec([])
    return cnt


def v_schur(sol, n):
    box = []
    for x in range(n):
        t = list(sol[3 * x : 3 * x + 3])
        if sorted(t) != [0, 0, 1]:
            return "number %d is in %d boxes" % (x + 1, sum(t))
        box.append(t.index(1))
    for x in range(1, n + 1):
        for y in range(1, n + 1):
            z = x + y
            if z <= n and box[x - 1] == box[y - 1] == box[z - 1]:
                return "%d + %d = %d in the same box" % (x, y, z)
    return None


def count_schur(n):
    cnt = 0
    for box in product(range(3), repeat=n):
        ok = True
        for x in range(1, n + 1):
            for y in range(x, n + 1):
                z = x + y
                if z <= n and box[x - 1] == box[y - 1] == box[z - 1]:
                    ok = False
                    break
            if not ok:
                break
        cnt += ok
    return cnt


def v_sts(sol, n):
    periods, weeks = n // 2, n - 1
    def t(p, w, s):
        return sol[p * (weeks * 2) + w * 2 + s]
    pairs = set()
    for w in range(weeks):
        teams = [t(p, w, s) for p in range(periods) for s in range(2)]
        if sorted(teams) != list(range(n)):
            return "week %d: teams %s" % (w, teams)
    for p in range(periods):
        teams = [t(p, w, s) for w in range(weeks) for s in range(2)]
        for x in range(n):
            if teams.count(x) > 2:
                return "team %d plays %d times in period %d" % (x, teams.count(x), p)
    for p in range(periods):
        for w in range(weeks):
            a, b = t(p, w, 0), t(p, w, 1)
            if a == b:
                return "team %d plays itself" % a
            pr = (min(a, b), max(a, b))
            if pr in pairs:
                return "%s meet twice" % (pr,)
            pairs.add(pr)
    if len(pairs) != n * (n - 1) // 2:
        return "not every pair meets"
    return None


def count_sts_oriented(n):
    """Schedules with the smaller team index in the first slot (the orientation the shipped model fixes)."""
    periods, weeks = n // 2, n - 1
    teams = list(range(n))

    def matchings(ts):
        if not ts:
            yield []
            return
        a = ts[0]
        for i in range(1, len(ts)):
            b = ts[i]
            rest = ts[1:i] + ts[i + 1 :]
            for m in matchings(rest):
                yield [(a, b)] + m

    week_opts = []
    for m in matchings(teams):
        for perm in permutations(m):
            week_opts.append(perm)
    cnt = 0

    def rec(w, used_pairs, per_period):
        nonlocal cnt
        if w == weeks:
            cnt += 1
            return
        for opt in week_opts:
            if any(pr in used_pairs for pr in opt):
                continue
            ok = True
            for p, (a, b) in enumerate(opt):
                if per_period[p].get(a, 0) >= 2 or per_period[p].get(b, 0) >= 2:
                    ok = False
                    break
            if not ok:
                continue
            for p, (a, b) in enumerate(opt):
                per_period[p][a] = per_period[p].get(a, 0) + 1
                per_period[p][b] = per_period[p].get(b, 0) + 1
            rec(w + 1, used_pairs | set(opt), per_period)
            for p, (a, b) in enumerate(opt):
                per_period[p][a] -= 1
                per_period[p][b] -= 1

    rec(0, frozenset(), [dict() for _ in range(periods)])
    return cnt


def v_knapsack(sol, weights, volumes, capacity):
    n = len(weights)
    x = list(sol[:n])
    if any(b not in (0, 1) for b in x):
        return "non-binary choice"
    if sum(v * b for v, b in zip(volumes, x)) > capacity:
        return "capacity exceeded"
    if sol[n] != sum(w * b for w, b in zip(weights, x)):
        return "weight variable %d != %d" % (sol[n], sum(w * b for w, b in zip(weights, x)))
    return None


def best_knapsack(weights, volumes, capacity):
    best = 0
    for x in product((0, 1), repeat=len(weights)):
        if sum(v * b for v, b in zip(volumes, x)) <= capacity:
            best = max(best, sum(w * b for w, b in zip(weights, x)))
    return best


def v_circuit(succ):
    n = len(succ)
    if sorted(succ) != list(range(n)):
        return "successors %s are not a permutation" % list(succ)
    k, c = 0, 0
    while True:
        k = succ[k]
        c += 1
        if k == 0:
            break
    if c != n:
        return "sub-cycle of length %d through 0 in %s" % (c, list(succ))
    return None


def v_tsp(sol, costs):
    n = len(costs)
    r = v_circuit(list(sol[:n]))
    if r:
        return r
    for i in range(n):
        if sol[n + i] != costs[i][sol[i]]:
            return "cost variable %d = %d, edge %d->%d costs %d" % (i, sol[n + i], i, sol[i], costs[i][sol[i]])
    if sol[2 * n] != sum(costs[i][sol[i]] for i in range(n)):
        return "total %d != %d" % (sol[2 * n], sum(costs[i][sol[i]] for i in range(n)))
    return None


def best_tsp(costs):
    n = len(costs)
    best = None
    for p in permutations(range(1, n)):
        tour = (0,) + p
        c = sum(costs[tour[i]][tour[(i + 1) % n]] for i in range(n))
        if best is None or c < best:
            best = c
    return best


def v_sudoku(sol, givens):
    mat = [list(sol[i * 9 : (i + 1) * 9]) for i in range(9)]
    want = list(range(1, 10))
    for i in range(9):
        if sorted(mat[i]) != want or sorted(mat[k][i] for k in range(9)) != want:
            return "row/column %d" % i
    for bi in range(3):
        for bj in range(3):
            if sorted(mat[3 * bi + a][3 * bj + b] for a in range(3) for b in range(3)) != want:
                return "box %d,%d" % (bi, bj)
    for i in range(9):
        for j in range(9):
            if givens[i][j] in want and mat[i][j] != givens[i][j]:
                return "given at %d,%d changed" % (i, j)
    return None


ALPHA_WORDS = {
    "BALLET": 45, "CELLO": 43, "CONCERT": 74, "FLUTE": 30, "FUGUE": 50, "GLEE": 66, "JAZZ": 58, "LYRE": 47, "OBOE": 53, "OPERA": 65,
    "POLKA": 59, "QUARTET": 50, "SAXOPHONE": 134, "SCALE": 51, "SOLO": 37, "SONG": 61, "SOPRANO": 82, "THEME": 72, "VIOLIN": 100, "WALTZ": 34,
}


def v_alpha(sol):
    if sorted(sol) != list(range(1, 27)):
        return "letters are not a permutation of 1..26"
    for w, total in ALPHA_WORDS.items():
        if sum(sol[ord(ch) - 65] for ch in w) != total:
            return "%s sums to %d, not %d" % (w, sum(sol[ord(ch) - 65] for ch in w), total)
    return None


def v_donald(sol):
    A, B, D, E, G, L, N, O, R, T = sol
    if len(set(sol)) != 10 or any(not (0 <= x <= 9) for x in sol):
        return "digits are not all different"

    def num(ds):
        x = 0
        for d in ds:
            x = 10 * x + d
        return x

    if num([D, O, N, A, L, D]) + num([G, E, R, A, L, D]) != num([R, O, B, E, R, T]):
        return "DONALD + GERALD != ROBERT"
    return None


SUDOKUS = [
    [
        [0, 0, 0, 0, 3, 0, 0, 0, 0], [2, 8, 9, 0, 0, 0, 0, 0, 0], [0, 0, 5, 7, 0, 0, 0, 9, 0], [0, 0, 0, 0, 0, 0, 8, 0, 6], [0, 0, 0, 3, 0, 0, 1, 0, 0],
        [7, 1, 0, 0, 0, 6, 0, 0, 2], [0, 6, 3, 0, 0, 0, 0, 0, 0], [0, 0, 0, 0, 4, 0, 2, 0, 0], [0, 0, 1, 0, 5, 0, 6, 0, 0],
    ],
    [
        [6, 0, 0, 0, 1, 0, 0, 8, 0], [5, 1, 7, 4, 0, 0, 0, 0, 0], [0, 0, 3, 0, 0, 0, 0, 4, 0], [0, 0, 0, 0, 0, 0, 0, 0, 1], [0, 0, 0, 5, 0, 0, 3, 0, 0],
        [1, 6, 0, 0, 0, 9, 0, 5, 2], [2, 5, 9, 6, 0, 0, 0, 0, 0], [0, 0, 0, 0, 7, 0, 0, 0, 0], [0, 0, 0, 0, 5, 0, 4, 0, 0],
    ],
]
