"""
C15 — results are reproducible, mode-independent and independent of earlier solver use (DESIGN.md 4).

Case: {"problems": [P...], "configs": [cfg...], "ops": [...]}  — a history of solver constructions, partial
enumerations, abandoned iterators, registrations of clones and re-use of Problem objects inside ONE process.
  (a) history independence: inside the process every observation of (problem, configuration, run) must equal the
      first one (sequence of solutions AND the full statistics dictionary);
  (b) mode independence / (c) reproducibility: the list of all observations of a batch of cases, computed in this
      process, must be identical to the one computed by a fresh process in the other execution mode and by a
      second fresh process in the same mode.
"""

import json
import os
import subprocess
import sys

from hypothesis import strategies as st

from vlib import gen, nx
from vlib.run import EngineError, Verdict, engine

P, H, CA = nx.P, nx.H, nx.CA
MAX_REGISTRY = 48


_POISON = [0]


def poison_heap():
    """
    Part of the 'history': small blocks freed earlier in the process are what np.empty() hands out next.  Filling them with a
    pattern that changes from call to call turns a read of uninitialised memory into a visible dependence on the history.
    """
    import numpy as np

    _POISON[0] = (_POISON[0] * 37 + 101) % 256
    pat = _POISON[0]
    for dtype in (np.uint8, np.int32, np.int64):
        blocks = [np.full(size, pat, dtype=dtype) for size in range(1, 25) for _ in range(8)]
        del blocks


class _PoisonedNumpy:
    """
    Stands for the numpy module inside the interpreted engine: empty() hands out memory filled with the current garbage byte
    instead of whatever the allocator left there, so that every read of uninitialised memory depends on the position in the history.
    """

    def __init__(self, real):
        self.__dict__["_real"] = real

    def __getattr__(self, name):
        return getattr(self._real, name)

    def empty(self, shape, dtype=float, **kw):
        a = self._real.empty(shape, dtype=dtype, **kw)
        if a.size:
            if a.dtype == self._real.bool_:
                a[...] = bool(_POISON[0] & 1)
            else:
                a.reshape(-1).view(self._real.uint8)[:] = _POISON[0]
        return a


def install_numpy_poison():
    """Mode I only (the compiled engine resolves np at compile time)."""
    if not nx.INTERPRETED:
        return 0
    import numpy as np

    n = 0
    for name, mod in list(sys.modules.items()):
        if name.startswith("nucs.") and getattr(mod, "np", None) is np:
            mod.np = _PoisonedNumpy(np)
            n += 1
    return n


def _solve(pb, pc, cfg, how, idx_override=None):
    poison_heap()
    install_numpy_poison()
    kw = {}
    if idx_override:
        kw = idx_override
    solver = nx.make_solver(pb, cfg, nx.needed_height(pc, cfg))
    for k, v in kw.items():
        setattr(solver, k, v)
    if how[0] == "find_all":
        seq = [list(nx.vec(s)) for s in solver.find_all()]
    elif how[0] == "min":
        r = solver.minimize(how[1])
        seq = None if r is None else list(nx.vec(r))
    else:
        r = solver.maximize(how[1])
        seq = None if r is None else list(nx.vec(r))
    return {"seq": seq, "stats": solver.get_statistics()}


# ----------------------------------------------------------------------------------------------
# user-written heuristics produced by a factory: distinct functions that share one __name__ (closures), registered side by
# side.  Each delegates to a shipped heuristic, so a solver configured with it must behave exactly like the shipped one.
# ----------------------------------------------------------------------------------------------
_USER = {}


def _make_user_dom_heuristic(take_max):
    from numba import njit

    from nucs.heuristics.max_value_dom_heuristic import max_value_dom_heuristic
    from nucs.heuristics.min_value_dom_heuristic import min_value_dom_heuristic

    @njit
    def user_dom_heuristic(params, shr_domains_stack, not_entailed_propagators_stack, dom_update_stack, stacks_top, dom_idx):
        if take_max:
            return max_value_dom_heuristic(params, shr_domains_stack, not_entailed_propagators_stack, dom_update_stack, stacks_top, dom_idx)
        return min_value_dom_heuristic(params, shr_domains_stack, not_entailed_propagators_stack, dom_update_stack, stacks_top, dom_idx)

    return user_dom_heuristic


def _make_user_var_heuristic(smallest):
    from numba import njit

    from nucs.heuristics.first_not_instantiated_var_heuristic import first_not_instantiated_var_heuristic
    from nucs.heuristics.smallest_domain_var_heuristic import smallest_domain_var_heuristic

    @njit
    def user_var_heuristic(params, decision_domains, shr_domains_stack, stacks_top):
        if smallest:
            return smallest_domain_var_heuristic(params, decision_domains, shr_domains_stack, stacks_top)
        return first_not_instantiated_var_heuristic(params, decision_domains, shr_domains_stack, stacks_top)

    return user_var_heuristic


def user_heuristics(first):
    """Registers (once per process) the two user value heuristics and the two user variable heuristics; `first` says which
    member of each pair is registered first.  Returns {"dom:min": idx, "dom:max": idx, "var:first": idx, "var:smallest": idx}."""
    if not _USER:
        doms = [("dom:min", _make_user_dom_heuristic(False)), ("dom:max", _make_user_dom_heuristic(True))]
        vars_ = [("var:first", _make_user_var_heuristic(False)), ("var:smallest", _make_user_var_heuristic(True))]
        if first % 2:
            doms.reverse()
        if (first // 2) % 2:
            vars_.reverse()
        for k, f in doms:
            _USER[k] = H.register_dom_heuristic(f)
        for k, f in vars_:
            _USER[k] = H.register_var_heuristic(f)
    return _USER


def build_with_clones(pc, clones):
    pb = nx.Problem([tuple(d) for d in pc["shr"]], list(pc["idx"]), list(pc["off"]))
    for pr in pc["props"]:
        alg = clones.get(pr["type"], nx.ALG[pr["type"]])
        pb.add_propagator((list(pr["vars"]), alg, list(pr["params"])))
    return pb


def execute(case):
    """Runs the history; returns the list of observations [label, key, value]."""
    obs = []
    problems, configs = case["problems"], case["configs"]
    slots = {}
    clones = {}
    heur_clones = {}

    def key(pi, ci, how):
        return "%d/%d/%s" % (pi, ci, json.dumps(how))

    # baseline observations first
    for pi in range(len(problems)):
        for ci in range(len(configs)):
            if gen.cost_heuristics_allowed(problems[pi]) or "costs" not in configs[ci]:
                obs.append(["baseline", key(pi, ci, ["find_all"]), _solve(nx.build_problem(problems[pi]), problems[pi], configs[ci], ["find_all"])])
    have = {o[1] for o in obs}
    for op in case["ops"]:
        kind = op[0]
        if kind in ("solve", "solve_clone", "solve_user", "reuse", "new", "split_after_solver", "narrow_after_solver"):
            pi, ci = op[1] % len(problems), op[2] % len(configs)
            pc, cfg = problems[pi], configs[ci]
            if key(pi, ci, ["find_all"]) not in have:
                continue
        if kind == "solve":
            how = op[3]
            if how[0] != "find_all":
                how = [how[0], how[1] % len(pc["idx"])]
            obs.append(["solve", key(pi, ci, how), _solve(nx.build_problem(pc), pc, cfg, how)])
        elif kind == "new":
            solver = nx.make_solver(nx.build_problem(pc), cfg, nx.needed_height(pc, cfg))
            slots[op[3] % 4] = [solver, solver.solve(), key(pi, ci, ["find_all"]), 0]
        elif kind == "next":
            s = slots.get(op[1] % 4)
            if s is None:
                continue
            got = []
            for _ in range(1 + op[2] % 3):
                try:
                    got.append(list(nx.vec(next(s[1]))))
                except StopIteration:
                    got.append("stop")
                    break
            obs.append(["next", s[2], {"from": s[3], "got": got}])
            s[3] += sum(1 for g in got if g != "stop")
        elif kind == "drop":
            slots.pop(op[1] % 4, None)
        elif kind == "register":
            what = op[1]
            if len(P.COMPUTE_DOMAINS_FCTS) >= MAX_REGISTRY or len(H.DOM_HEURISTIC_FCTS) >= MAX_REGISTRY or len(H.VAR_HEURISTIC_FCTS) >= MAX_REGISTRY or len(CA.CONSISTENCY_ALG_FCTS) >= 24:
                continue
            if what in nx.ALG:
                a = nx.ALG[what]
                clones[what] = P.register_propagator(P.GET_TRIGGERS_FCTS[a], P.GET_COMPLEXITY_FCTS[a], P.COMPUTE_DOMAINS_FCTS[a])
            elif what.startswith("var:"):
                heur_clones[what] = H.register_var_heuristic(H.VAR_HEURISTIC_FCTS[nx.VAR_HEUR[what[4:]]])
            elif what.startswith("dom:"):
                heur_clones[what] = H.register_dom_heuristic(H.DOM_HEURISTIC_FCTS[nx.DOM_HEUR[what[4:]]])
            elif what.startswith("cons:"):
                heur_clones[what] = CA.register_consistency_algorithm(CA.CONSISTENCY_ALG_FCTS[nx.CONS_ALG[what[5:]]])
        elif kind == "solve_clone":
            how = ["find_all"]
            over = {}
            if "var:" + cfg["var"] in heur_clones:
                over["var_heuristic_idx"] = heur_clones["var:" + cfg["var"]]
            if "dom:" + cfg["dom"] in heur_clones:
                over["dom_heuristic_idx"] = heur_clones["dom:" + cfg["dom"]]
            if "cons:" + cfg["cons"] in heur_clones:
                over["consistency_alg_idx"] = heur_clones["cons:" + cfg["cons"]]
            obs.append(["solve_clone", key(pi, ci, how), _solve(build_with_clones(pc, clones), pc, cfg, how, over)])
        elif kind == "solve_user":
            # the configuration with its value (resp. variable) heuristic replaced by a user-written function that delegates to
            # the shipped min/max value (resp. first / smallest domain) heuristic: same search, same statistics
            u = user_heuristics(op[3])
            dom, var = ["min", "max"][op[4] % 2], ["first", "smallest"][(op[4] // 2) % 2]
            cfg2 = {"cons": cfg["cons"], "var": var, "dom": dom}
            k2 = key(pi, ci, ["user", var, dom])
            obs.append(["user-ref", k2, _solve(nx.build_problem(pc), pc, cfg2, ["find_all"])])
            over = {}
            if op[5] % 3 != 1:
                over["dom_heuristic_idx"] = u["dom:" + dom]
            if op[5] % 3 != 0:
                over["var_heuristic_idx"] = u["var:" + var]
            obs.append(["solve", k2, _solve(nx.build_problem(pc), pc, cfg2, ["find_all"], over)])
        elif kind == "split_after_solver":
            var, k = op[3] % len(pc["idx"]), 1 + op[4] % 4
            how = ["find_all"]
            # reference: split() of a problem object that no solver has ever seen
            fresh = [_solve(sp, pc, cfg, how)["seq"] for sp in nx.build_problem(pc).split(k, var)]
            obs.append(["split-fresh", key(pi, ci, ["split", var, k]), {"seq": fresh, "stats": {}}])
            pb = nx.build_problem(pc)
            first = nx.make_solver(pb, cfg, nx.needed_height(pc, cfg))
            it = first.solve()
            for _ in range(op[5] % 3):
                next(it, None)
            used = [_solve(sp, pc, cfg, how)["seq"] for sp in pb.split(k, var)]
            obs.append(["solve", key(pi, ci, ["split", var, k]), {"seq": used, "stats": {}}])
        elif kind == "narrow_after_solver":
            d = op[3] % len(pc["shr"])
            lo, hi = pc["shr"][d]
            if lo == hi:
                continue
            new_dom = [lo + 1, hi] if op[4] % 2 else [lo, hi - 1]
            pc2 = dict(pc, shr=[list(x) for x in pc["shr"]])
            pc2["shr"][d] = list(new_dom)
            obs.append(["narrow-fresh", key(pi, ci, ["narrow", d, new_dom]), _solve(nx.build_problem(pc2), pc2, cfg, ["find_all"])])
            pb = nx.build_problem(pc)
            nx.make_solver(pb, cfg, nx.needed_height(pc, cfg))
            pb.shr_domains_lst[d] = list(new_dom)  # the way the shipped quasigroup / tournament models set their domains
            obs.append(["solve", key(pi, ci, ["narrow", d, new_dom]), _solve(pb, pc2, cfg, ["find_all"])])
        elif kind == "reuse":
            cj = op[3] % len(configs)
            if key(pi, cj, ["find_all"]) not in have:
                continue
            pb = nx.build_problem(pc)
            first = nx.make_solver(pb, cfg, nx.needed_height(pc, cfg))
            it = first.solve()
            for _ in range(op[4] % 3):
                next(it, None)
            # the same Problem object for a second solver, while the first one is still alive
            obs.append(["reuse", key(pi, cj, ["find_all"]), _solve(pb, pc, configs[cj], ["find_all"])])
            nxt = next(it, None)
            obs.append(["reuse-first-continues", key(pi, ci, ["find_all"]), {"from": op[4] % 3, "got": ["stop" if nxt is None else list(nx.vec(nxt))]}])
    return obs


def history_verdict(obs):
    """(a): every observation must agree with the baseline of its key."""
    base = {}
    for label, k, v in obs:
        if label in ("baseline", "split-fresh", "narrow-fresh", "user-ref"):
            base.setdefault(k, v)
    for label, k, v in obs:
        if label in ("solve", "solve_clone", "reuse"):
            if k not in base:
                base[k] = v
                continue
            b = base[k]
            if v["seq"] != b["seq"]:
                return "%s of %s produced a different solution sequence than the first run of the same problem/configuration (%s... vs %s...)" % (label, k, str(v["seq"])[:80], str(b["seq"])[:80])
            if v["stats"] != b["stats"]:
                diff = {x: (v["stats"][x], b["stats"][x]) for x in v["stats"] if v["stats"][x] != b["stats"][x]}
                return "%s of %s produced different statistics than the first run of the same problem/configuration: %s" % (label, k, diff)
        elif label in ("next", "reuse-first-continues"):
            b = base.get(k)
            if b is None:
                continue
            exp = []
            i = v["from"]
            for g in v["got"]:
                exp.append(b["seq"][i] if i < len(b["seq"]) else "stop")
                i += 1
            if v["got"] != exp:
                return "partial enumeration of %s from position %d yielded %s, the full enumeration has %s there" % (k, v["from"], v["got"], exp)
    return None


def check(case):
    tags = ["ops:%d" % min(len(case["ops"]), 12)]
    try:
        obs = engine(execute, case)
    except EngineError as e:
        return Verdict(False, "history raised %s" % e.bucket, True, tags)
    labels = {o[0] for o in obs}
    for l in labels:
        tags.append("obs:" + l)
    abandoned = any(op[0] in ("drop", "new", "reuse", "split_after_solver", "narrow_after_solver") for op in case["ops"])
    registered = any(op[0] in ("register", "solve_user") for op in case["ops"])
    nt = abandoned and registered and any(o[0] in ("solve", "solve_clone", "reuse") for o in obs)
    bad = history_verdict(obs)
    if bad:
        return Verdict(False, bad, nt, tags)
    v = Verdict(True, "", nt, tags)
    v.obs = obs
    return v


@st.composite
def c15_case(draw, tier):
    big = tier != "quick"
    np_ = draw(st.integers(1, 3))
    problems = [draw(gen.problem_case(max_shr=4, max_w=3, max_props=3, max_arity=4, max_points=300 if not big else 1500)) for _ in range(np_)]
    configs = []
    for _ in range(draw(st.integers(1, 3))):
        c = {"cons": draw(st.sampled_from(gen.CONS)), "var": draw(st.sampled_from(gen.VARS[:3])), "dom": draw(st.sampled_from(gen.DOMS[:4]))}
        configs.append(c)
    types = sorted({p["type"] for pc in problems for p in pc["props"]})
    regs = types + ["var:first", "var:smallest", "var:greatest", "dom:min", "dom:max", "dom:split_low", "dom:mid", "cons:bc", "cons:shaving"]
    op = st.one_of(
        st.tuples(st.just("solve"), st.integers(0, 5), st.integers(0, 5), st.sampled_from([["find_all"], ["min", 0], ["max", 1], ["min", 2]])),
        st.tuples(st.just("new"), st.integers(0, 5), st.integers(0, 5), st.integers(0, 3)),
        st.tuples(st.just("next"), st.integers(0, 3), st.integers(0, 5)),
        st.tuples(st.just("drop"), st.integers(0, 3)),
        st.tuples(st.just("register"), st.sampled_from(regs)),
        st.tuples(st.just("solve_clone"), st.integers(0, 5), st.integers(0, 5)),
        st.tuples(st.just("reuse"), st.integers(0, 5), st.integers(0, 5), st.integers(0, 5), st.integers(0, 5)),
        st.tuples(st.just("solve_user"), st.integers(0, 5), st.integers(0, 5), st.integers(0, 3), st.integers(0, 3), st.integers(0, 2)),
        st.tuples(st.just("split_after_solver"), st.integers(0, 5), st.integers(0, 5), st.integers(0, 7), st.integers(0, 5), st.integers(0, 5)),
        st.tuples(st.just("narrow_after_solver"), st.integers(0, 5), st.integers(0, 5), st.integers(0, 7), st.integers(0, 1)),
    )
    ops = [list(o) for o in draw(st.lists(op, min_size=2, max_size=14 if not big else 24))]
    return {"problems": problems, "configs": configs, "ops": ops}


# ----------------------------------------------------------------------------------------------
# cross-process / cross-mode comparison of a batch
# ----------------------------------------------------------------------------------------------
def other_env(mode):
    env = {k: v for k, v in os.environ.items() if not k.startswith("NUMBA_") and k != "VERIF_JOURNAL"}
    env["OMP_NUM_THREADS"] = env["NUMBA_NUM_THREADS"] = "1"
    if mode == "I":
        env["NUMBA_DISABLE_JIT"] = "1"
    else:
        env["NUMBA_CACHE_DIR"] = os.environ["VERIF_NBCACHE_J"]
    return env


def batch_in_fresh_process(cases, mode, tag):
    d = os.environ.get("VERIF_JOURNAL", "/tmp/c15") + ".batch-%s" % tag
    json.dump(cases, open(d + ".in", "w"))
    r = subprocess.run([sys.executable, "-m", "vlib.props.c15", d + ".in", d + ".out"], env=other_env(mode), capture_output=True, text=True, cwd=os.path.dirname(os.path.dirname(os.path.dirname(os.path.abspath(__file__)))), timeout=3000)
    if r.returncode != 0:
        raise RuntimeError("batch subprocess failed: " + r.stderr[-2000:])
    out = json.load(open(d + ".out"))
    os.remove(d + ".in")
    os.remove(d + ".out")
    return out


def compare_obs(a, b, what):
    if a == b:
        return None
    if isinstance(a, dict) or isinstance(b, dict):
        return "%s: one of the runs raised: %s / %s" % (what, str(a)[:200], str(b)[:200])
    for x, y in zip(a, b):
        if x != y:
            if isinstance(x[2], dict) and isinstance(y[2], dict) and x[2].get("seq") == y[2].get("seq") and "stats" in x[2]:
                diff = {k: (x[2]["stats"][k], y[2]["stats"][k]) for k in x[2]["stats"] if x[2]["stats"][k] != y[2]["stats"].get(k)}
                return "%s: observation %s of %s has the same solutions but different statistics %s" % (what, x[0], x[1], diff)
            return "%s: observation %s of %s differs: %s vs %s" % (what, x[0], x[1], str(x[2])[:160], str(y[2])[:160])
    return "%s: different numbers of observations" % what


def check_modes(case):
    """Replay form of (b)/(c): this process vs fresh processes in both modes."""
    mine = json.loads(json.dumps(engine(execute, case)))
    me = "I" if nx.INTERPRETED else "J"
    for mode in ("I", "J", "J" if me == "I" else "I"):
        other = batch_in_fresh_process([case], mode, "replay")[0]
        bad = compare_obs(mine, other, "mode %s in this process vs mode %s in a fresh process" % (me, mode))
        if bad:
            return Verdict(False, bad, True, [])
    return Verdict(True, "", True, [])


META = {
    "level": "exploration",
    "rule": "cases = histories in one process over 1-3 generated problems and 1-3 configurations: solve, create solver, partial next(), drop (abandoned iterator), register clones of shipped propagators / heuristics / consistency "
    "algorithms, solve through the clone indices, reuse one Problem object for a second solver while the first is alive; oracle (a) every observation (solution sequence + all 13 statistics) equals the first observation of the "
    "same problem/configuration; (b)+(c) the whole list of observations of each case equals the one computed by a fresh process in the other execution mode and by a second fresh process in the same mode; "
    "non-trivial = history with an abandoned/created iterator and a registration before a compared run; distinct by SHA-1 of the canonical case",
    "assumptions": ["generated sums stay far below 2**31 (interpreted int32 arithmetic wraps beyond the documented 32-bit contract)"],
}
REPLAY_MODE = "I"
EXAMPLES = {"quick": 150, "thorough": 1200}


def jobs(tier):
    return [{"name": "hist-I", "mode": "I", "shards": 8, "case_timeout": 900}, {"name": "hist-J", "mode": "J", "shards": 8, "case_timeout": 300}]


def run(job, shard, nshards, seed, tier):
    from vlib.run import Recorder, drive, shard_seed

    rec = Recorder()
    batch = []

    def chk(case):
        v = check(case)
        if v.ok and len(batch) < 400:
            batch.append((case, json.loads(json.dumps(v.obs))))
        return v

    drive(c15_case(tier), chk, rec, shard_seed(seed, shard, 41), EXAMPLES[tier], shrink_budget_s=120)
    if rec.failures:
        return rec.result()
    me = job["mode"]
    other = "J" if me == "I" else "I"
    cases = [c for c, _ in batch]
    runs = [(other, "other"), (me, "same")]
    for mode, tag in runs:
        outs = batch_in_fresh_process(cases, mode, "%s-%d" % (tag, shard))
        for (case, mine), theirs in zip(batch, outs):
            bad = compare_obs(mine, theirs, "mode %s after a history of %d cases vs mode %s in a fresh process" % (me, len(batch), mode))
            if bad:
                rec.failures.append({"case": dict(case, cross=True), "msg": bad})
                break
        if rec.failures:
            break
        rec.tag("cross-process-compared:%s-vs-%s" % (me, mode), len(cases))
    return rec.result()


def replay(case):
    if case.get("cross"):
        c = {k: v for k, v in case.items() if k != "cross"}
        return check_modes(c)
    return check(case)


if __name__ == "__main__":
    # fresh-process batch: python -m vlib.props.c15 in.json out.json
    cases = json.load(open(sys.argv[1]))
    out = []
    for c in cases:
        try:
            out.append(execute(c))
        except Exception as e:  # noqa: BLE001 - reported to the parent as a differing observation
            out.append({"raised": repr(e)})
    json.dump(out, open(sys.argv[2], "w"))
