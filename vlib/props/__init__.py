"""
Property registry: id -> module implementing
    jobs(tier) -> [ {"name":..., "mode": "I"|"J", "shards": n, ...}, ... ]
    run(job, shard, nshards, seed, tier) -> result dict (vlib.run.Recorder.result() + optional extras)
    replay(case) -> Verdict
    META = {"level":..., "rule":..., "assumptions": [...]}
"""

import importlib

MODULES = {
    "C01": "vlib.props.c01",
    "C02": "vlib.props.c02",
    "C03": "vlib.props.c03",
    "C04": "vlib.props.c04",
    "C05": "vlib.props.c05",
    "C08": "vlib.props.c08",
    "C09": "vlib.props.c09",
    "C10": "vlib.props.c10",
    "C11": "vlib.props.c11",
    "C12": "vlib.props.c12",
    "C13": "vlib.props.c13",
    "C17": "vlib.props.c17",
    "C18": "vlib.props.c18",
    "C19": "vlib.props.c19",
    "C20": "vlib.props.c20",
    "C06": "vlib.props.c06",
    "C07": "vlib.props.c07",
    "C14": "vlib.props.c14",
    "C15": "vlib.props.c15",
    "C16": "vlib.props.c16",
}


def load(prop):
    return importlib.import_module(MODULES[prop])


def spec(prop, tier):
    mod = load(prop)
    return {"jobs": mod.jobs(tier), "meta": mod.META, "replay_mode": getattr(mod, "REPLAY_MODE", "I")}
