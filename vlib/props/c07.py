"""C07 — box level: vlib/props/boxlevel.py; inside real searches: vlib/props/passlevel.py (DESIGN.md 4)."""

from vlib.props import boxlevel as _b

PROP = "C07"
META = {
    "level": "exploration",
    "rule": _b.RULES[PROP]
    + "; plus real searches on generated problems in which every ENTAILMENT answered by a propagator is checked on the live box by brute force and the enabled-flag row after each backtrack is compared with the row saved "
    "for that alternative (non-trivial = a search with an ENTAILMENT on a non-point box)",
    "exhaustive_part": "every (parameters, box) of the small scope for the 12 types that can answer ENTAILMENT",
}
SEARCH_EXAMPLES = {"quick": 700, "thorough": 7000}


def jobs(tier):
    return _b.jobs(PROP, tier) + [{"name": "search-I", "mode": "I", "shards": 8}]


def run(job, shard, nshards, seed, tier):
    if job["name"] == "search-I":
        from vlib.props import passlevel as _p
        from vlib.run import Recorder, drive, shard_seed

        rec = Recorder()
        drive(_p.c07_search_case(tier), _p.check_c07_search, rec, shard_seed(seed, shard, 81), SEARCH_EXAMPLES[tier], shrink_budget_s=90)
        return rec.result()
    return _b.run(PROP, job, shard, nshards, seed, tier)


def replay(case):
    if case.get("kind") == "search":
        from vlib.props import passlevel as _p

        return _p.check_c07_search(case)
    return _b.replay(PROP, case)
