"""
Properties observed inside real searches through the interposers (mode I): C08 (fixpoint / monotonicity /
order independence / trigger sufficiency), C10 (shaving), C17 (statistics).  DESIGN.md 4.
"""

from collections import Counter
from itertools import product

import numpy as np
from hypothesis import strategies as st

from vlib import gen, interpose, nx, solve
from vlib.catalogue import EXACT_BC_TYPES, TYPES, box_points, box_size
from vlib.props.solverlevel import cfg_tag, problem_tags
from vlib.ref import brute_force, ref_fixpoint, shr_box_size
from vlib.run import BudgetExceeded, EngineError, Verdict, engine

P = nx.P


def _orig_compute(alg):
    f = P.COMPUTE_DOMAINS_FCTS[alg]
    return getattr(f, "__wrapped__", f)


def _box(arr):
    return [[int(a), int(b)] for a, b in arr]


def _zero_cap(pc):
    for p in pc["props"]:
        if p["type"] == "gcc":
            m = (len(p["params"]) - 1) // 2
            if any(u == 0 for u in p["params"][1 + m :]):
                return True
    return False


# ----------------------------------------------------------------------------------------------
# C08: every non-failing exit of a propagation pass
# ----------------------------------------------------------------------------------------------
class PassWatcher:
    def __init__(self, pc, ref_limit=6):
        self.pc = pc
        self.bad = None
        self.passes = 0
        self.nontrivial = 0
        self.ref_checked = 0
        self.ref_limit = ref_limit
        self.exact = all(TYPES[p["type"]].exact_bc for p in pc["props"])
        self.cur_filters = 0
        self.pb = None  # set by the caller: the nucs Problem (propagators sorted by init)

    def on_filter(self, *a):
        self.cur_filters += 1

    def on_unannounced(self, who, d, before, after, need, got):
        if self.bad is None:
            names = lambda e: "|".join(n for n, b in (("MIN", 1), ("MAX", 2), ("GROUND", 4)) if e & b) or "nothing"  # noqa: E731
            self.bad = "executing constraint type %s moved shared domain %d from %s to %s: the events %s had to be announced to its watchers, %s was" % (nx.ALG_NAME.get(int(who), who), d, before, after, names(need), names(got))

    def on_pass(self, kind, before, after, status, args, in_shaving):
        nf, self.cur_filters = self.cur_filters, 0
        if self.bad or status == nx.PROBLEM_INCONSISTENT:
            return
        self.passes += 1
        (statistics, algorithms, var_bounds, param_bounds, dia, doa, pdi, pdo, pparams, triggers, shr_stack, flags_stack, upd, stacks_top, triggered, addrs, dd) = args
        top = int(stacks_top[0])
        cur = shr_stack[top]
        where = "pass at level %d%s" % (top, " (inside shaving)" if in_shaving else "")
        for d in range(len(cur)):
            if cur[d, 0] > cur[d, 1]:
                self.bad = "%s reported %s with the empty domain %d = %s" % (where, "solved" if status == nx.PROBLEM_BOUND else "consistent", d, cur[d].tolist())
                return
            if cur[d, 0] < before[d, 0] or cur[d, 1] > before[d, 1]:
                self.bad = "%s widened domain %d from %s to %s" % (where, d, before[d].tolist(), cur[d].tolist())
                return
        removed = int(((before[:, 1] - before[:, 0]) - (cur[:, 1] - cur[:, 0])).sum())
        if nf >= 2 and removed >= 1:
            self.nontrivial += 1
        # common fixpoint: re-execute every enabled constraint on the current views
        for p in range(len(algorithms)):
            if not flags_stack[top, p]:
                continue
            s, e = int(var_bounds[p, 0]), int(var_bounds[p, 1])
            idx = pdi[s:e]
            offs = pdo[s:e]
            views = cur[idx] + offs
            inp = views.copy()
            par = pparams[int(param_bounds[p, 0]) : int(param_bounds[p, 1])]
            name = nx.ALG_NAME.get(int(algorithms[p]), "?")
            try:
                st_ = int(_orig_compute(int(algorithms[p]))(views, par.copy()))
            except Exception as ex:  # noqa: BLE001
                self.bad = "%s: re-executing constraint %d (%s) on the result raised %r" % (where, p, name, ex)
                return
            if st_ == nx.PROP_INCONSISTENCY:
                self.bad = "%s ended on domains %s but re-executing the enabled constraint %d (%s%s on views %s) fails" % (where, _box(cur), p, name, par.tolist(), _box(inp))
                return
            if name != "no_sub_cycle":
                narrowed = (views[:, 0] > inp[:, 0]) | (views[:, 1] < inp[:, 1])
                if narrowed.any():
                    self.bad = "%s ended on domains %s but re-executing the enabled constraint %d (%s%s) narrows its views %s to %s" % (where, _box(cur), p, name, par.tolist(), _box(inp), _box(views))
                    return
        # largest common fixpoint (exact bound-consistency constraints only)
        if self.exact and self.ref_checked < self.ref_limit:
            try:
                ref = ref_fixpoint(self.pc, _box(before), max_points=4000)
            except OverflowError:
                return
            self.ref_checked += 1
            if ref is None:
                self.bad = "%s: the reference fixpoint of %s is empty but the pass did not fail (result %s)" % (where, _box(before), _box(cur))
            elif ref != _box(cur):
                self.bad = "%s: result %s differs from the largest common fixpoint %s of the entry state %s" % (where, _box(cur), ref, _box(before))


def make_schedule(prio):
    if not prio:
        return None

    def schedule(n):
        return sorted(range(n), key=lambda i: (prio[i % len(prio)], i))

    return schedule


def check_c08(case):
    if case.get("kind") == "trig":
        return check_trigger(case)
    if case.get("kind") == "matrix":
        return check_matrix(case)
    pc, cfg = case["problem"], case["config"]
    tags = ["cfg:" + cfg_tag(cfg)] + problem_tags(pc)
    w = PassWatcher(pc)
    if w.exact:
        tags.append("all-exact-bc")
    if case.get("prio"):
        tags.append("scheduled")
    out = solve.run(pc, cfg, tuple(case.get("op", ["iter"])), order=case.get("order"), detail=True, observers=[w], schedule=make_schedule(case.get("prio")))
    tags.append("ref-checked:%d" % min(w.ref_checked, 3))
    if w.bad:
        return Verdict(False, w.bad + " [%s order=%s prio=%s]" % (cfg_tag(cfg), case.get("order"), case.get("prio")), True, tags)
    if out.kind not in ("ok", "slow"):
        tags.append("aborted:" + out.kind)
    return Verdict(True, "", w.nontrivial > 0, tags)


@st.composite
def c08_case(draw, tier):
    big = tier != "quick"
    pc = draw(gen.problem_case(max_shr=5, max_w=4, max_props=4 if not big else 5, max_arity=4, max_points=3000 if not big else 20000))
    cfg = draw(gen.config(pc))
    case = {"problem": pc, "config": cfg, "op": draw(st.sampled_from([["iter"], ["iter"], ["prefix", 2], ["min", 0], ["max", 0]]))}
    if len(pc["props"]) > 1 and draw(st.integers(0, 1)):
        case["order"] = list(draw(st.permutations(list(range(len(pc["props"]))))))
    if draw(st.integers(0, 2)) > 0:
        case["prio"] = draw(st.lists(st.integers(0, 5), min_size=1, max_size=6))
    return case


# ---- trigger sufficiency (propagator level) ------------------------------------------------------
PARTIAL_MASK_TYPES = ["affine_geq", "affine_leq", "max_leq", "min_geq", "no_sub_cycle"]


def check_trigger(case):
    name, params, box = case["type"], case["params"], case["box"]
    tags = ["trig:" + name]
    try:
        st0, out = engine(nx.compute_domains, name, box, params)
    except EngineError as e:
        return Verdict(True, "", False, tags + ["aborted:" + e.bucket])
    if st0 != nx.PROP_CONSISTENCY:
        return Verdict(True, "", False, tags + ["not-consistent"])
    # make sure `out` is a fixpoint of the propagator itself
    st1, out1 = engine(nx.compute_domains, name, out, params)
    if st1 != nx.PROP_CONSISTENCY or out1 != out:
        return Verdict(True, "", False, tags + ["not-a-fixpoint"])
    masks = nx.get_triggers(name, len(box), params)
    i = case["pos"] % len(box)
    side = case["side"]
    lo, hi = out[i]
    if lo == hi:
        return Verdict(True, "", False, tags + ["instantiated"])
    amount = 1 + case["amount"] % (hi - lo)
    new = [list(b) for b in out]
    if side == 0:
        new[i][0] = lo + amount
        ev = 1
    else:
        new[i][1] = hi - amount
        ev = 2
    if new[i][0] == new[i][1]:
        ev |= 4
    if masks[i] & ev:
        return Verdict(True, "", False, tags + ["watched"])
    st2, out2 = engine(nx.compute_domains, name, new, params)
    what = "%s%s at its fixpoint %s, then the unwatched change of position %d to %s (mask %d, events %d)" % (name, params, out, i, new[i], masks[i], ev)
    if st2 == nx.PROP_INCONSISTENCY:
        return Verdict(False, "%s makes the constraint fail" % what, True, tags)
    if TYPES[name].exact_bc and out2 != new:
        return Verdict(False, "%s enables further pruning: %s" % (what, out2), True, tags)
    return Verdict(True, "", True, tags)


@st.composite
def trig_case(draw, tier):
    c = draw(gen.box_case(types=PARTIAL_MASK_TYPES, max_n=4 if tier == "quick" else 6, max_w=4, lo=-3, hi=5))
    c["kind"] = "trig"
    c["pos"] = draw(st.integers(0, 7))
    c["side"] = draw(st.integers(0, 1))
    c["amount"] = draw(st.integers(0, 4))
    return c


# ---- trigger matrix of a problem: union over the positions of a shared domain -------------------------
def check_matrix(case):
    pc = case["problem"]
    tags = ["matrix"] + problem_tags(pc)
    pb = nx.build_problem(pc)
    engine(nx.make_solver, pb, {"cons": "bc", "var": "first", "dom": "min"})
    nt = False
    for p, (vars_, alg, params) in enumerate(pb.propagators):
        name = nx.ALG_NAME[int(alg)]
        masks = nx.get_triggers(name, len(vars_), list(params))
        want = {}
        for pos, v in enumerate(vars_):
            d = pc["idx"][v]
            want[d] = want.get(d, 0) | masks[pos]
        if len(want) < len(vars_) and len(set(masks)) > 1:
            nt = True
        for d in range(len(pc["shr"])):
            got = int(pb.triggers[d, p])
            if got != want.get(d, 0):
                return Verdict(False, "trigger mask of shared domain %d for constraint %d (%s%s on variables %s) is %d, the union of the declared masks of its positions is %d" % (d, p, name, list(params), list(vars_), got, want.get(d, 0)), True, tags)
    return Verdict(True, "", nt, tags)


@st.composite
def matrix_case(draw, tier):
    pc = draw(gen.problem_case(max_shr=3, max_w=4, max_props=4, max_arity=5, profiles=("wide", "general", "nonneg")))
    return {"kind": "matrix", "problem": pc}


# ----------------------------------------------------------------------------------------------
# C10: shaving
# ----------------------------------------------------------------------------------------------
class ShavingWatcher:
    def __init__(self, pc, limit=5):
        self.pc = pc
        self.bad = None
        self.calls = 0
        self.limit = limit
        self.undecidable = False

    def on_shave(self, bound, dom_idx, shaved, before, a):
        """After a probe: the probed value is removed iff it was refuted, and then the watchers of the moved bound are queued."""
        if self.bad:
            return
        shr_stack, flags_stack, stacks_top, triggered, triggers = a[12], a[13], a[15], a[16], a[11]
        top = int(stacks_top[0])
        cur = shr_stack[top, dom_idx]
        want = before.copy()
        if shaved:
            want[bound] += 1 if bound == 0 else -1
        if cur[0] != want[0] or cur[1] != want[1]:
            self.bad = "probing the %s of domain %d = %s (%s) left it at %s instead of %s" % ("min" if bound == 0 else "max", dom_idx, before.tolist(), "refuted" if shaved else "not refuted", cur.tolist(), want.tolist())
            return
        if shaved and cur[0] <= cur[1]:
            need = (1 if bound == 0 else 2) | (4 if cur[0] == cur[1] else 0)
            for p in range(triggers.shape[1]):
                if flags_stack[top, p] and (int(triggers[dom_idx, p]) & need) and not triggered[p]:
                    self.bad = "after shaving the %s of domain %d to %s the enabled constraint %d, which watches that change (mask %d), is not queued for propagation" % ("min" if bound == 0 else "max", dom_idx, cur.tolist(), p, int(triggers[dom_idx, p]))
                    return

    def on_shaving(self, before, entry, status, args):
        if self.bad:
            return
        self.calls += 1
        (statistics, algorithms, var_bounds, param_bounds, dia, doa, pdi, pdo, pparams, triggers, shr_stack, flags_stack, upd, stacks_top, triggered, addrs, dd) = args
        top = entry["top"]
        where = "shaving at level %d on %s" % (top, _box(before))
        if int(stacks_top[0]) != top:
            self.bad = "%s left the choice-point stack at height %d" % (where, int(stacks_top[0]))
            return
        if not (np.array_equal(entry["below"], shr_stack[:top]) and np.array_equal(entry["flags_below"], flags_stack[:top]) and np.array_equal(entry["upd_below"], upd[:top])):
            self.bad = "%s modified the stack levels below the current one" % where
            return
        cur = shr_stack[top]
        if status != nx.PROBLEM_INCONSISTENT:
            for d in range(len(cur)):
                if cur[d, 0] > cur[d, 1] or cur[d, 0] < before[d, 0] or cur[d, 1] > before[d, 1]:
                    self.bad = "%s returned domain %d = %s (was %s)" % (where, d, cur[d].tolist(), before[d].tolist())
                    return
        if self.calls > 8 * self.limit:
            return
        # plain bound consistency on a copy of the entry state
        H = top + 3
        shr2 = np.zeros((H,) + shr_stack.shape[1:], dtype=shr_stack.dtype)
        shr2[: top + 1] = shr_stack[: top + 1]
        shr2[top] = before
        fl2 = np.zeros((H, flags_stack.shape[1]), dtype=flags_stack.dtype)
        fl2[:top] = flags_stack[:top]
        fl2[top] = entry["flags"]
        upd2 = np.zeros((H, 2), dtype=upd.dtype)
        top2 = np.array([top], dtype=stacks_top.dtype)
        trig2 = entry["triggered"].copy()
        stats2 = np.zeros_like(statistics)
        saved = interpose.CURRENT
        interpose.CURRENT = None
        try:
            st_bc = int(interpose.ORIG["bc"](stats2, algorithms, var_bounds, param_bounds, dia, doa, pdi, pdo, pparams, triggers, shr2, fl2, upd2, top2, trig2, addrs, dd))
        finally:
            interpose.CURRENT = saved
        if st_bc == nx.PROBLEM_INCONSISTENT:
            if status != nx.PROBLEM_INCONSISTENT:
                self.bad = "%s did not fail although plain bound consistency fails on the same state" % where
            return
        bc_box = shr2[top]
        if status != nx.PROBLEM_INCONSISTENT:
            for d in range(len(cur)):
                if cur[d, 0] < bc_box[d, 0] or cur[d, 1] > bc_box[d, 1]:
                    self.bad = "%s returned %s, not contained in what plain bound consistency returns: %s" % (where, _box(cur), _box(bc_box))
                    return
            # ... and at least as strong as plain bound consistency on its own result: BC with every enabled constraint
            # woken, run on a copy of the returned state, must neither fail nor remove anything
            shr3 = shr2.copy()
            shr3[top] = cur
            fl3 = fl2.copy()
            fl3[top] = flags_stack[top]
            trig3 = flags_stack[top].copy()
            for p_ in range(len(algorithms)):
                # the sub-cycle constraint reacts to instantiation only and is not a fixpoint operator (exempted by C08 too)
                if nx.ALG_NAME.get(int(algorithms[p_])) == "no_sub_cycle":
                    trig3[p_] = False
            top3 = np.array([top], dtype=stacks_top.dtype)
            saved = interpose.CURRENT
            interpose.CURRENT = None
            try:
                st3 = int(interpose.ORIG["bc"](np.zeros_like(statistics), algorithms, var_bounds, param_bounds, dia, doa, pdi, pdo, pparams, triggers, shr3, fl3, np.zeros_like(upd2), top3, trig3, addrs, dd))
            finally:
                interpose.CURRENT = saved
            if st3 == nx.PROBLEM_INCONSISTENT or not np.array_equal(shr3[top], cur):
                self.bad = "%s returned %s, on which plain bound consistency %s: the result is weaker than bound consistency" % (where, _box(cur), "fails" if st3 == nx.PROBLEM_INCONSISTENT else "still prunes to %s" % _box(shr3[top]))
                return
        # no solution of the entry sub-box is lost
        if self.calls <= self.limit and shr_box_size(self.pc, _box(before)) <= 3000:
            sols, und = brute_force(self.pc, _box(before))
            if und:
                self.undecidable = True
                return
            if status == nx.PROBLEM_INCONSISTENT:
                if sols:
                    self.bad = "%s failed although %s is a solution of that sub-box" % (where, list(sols[0][1]))
                return
            for pt, vec in sols:
                if any(not (cur[d, 0] <= pt[d] <= cur[d, 1]) for d in range(len(cur))):
                    self.bad = "%s returned %s which lost the solution %s" % (where, _box(cur), list(vec))
                    return
            # flags cleared at the top only for constraints entailed on the result
            if status != nx.PROBLEM_INCONSISTENT:
                for p in range(len(algorithms)):
                    if entry["flags"][p] and not flags_stack[top, p]:
                        s, e = int(var_bounds[p, 0]), int(var_bounds[p, 1])
                        views = _box(cur[pdi[s:e]] + pdo[s:e])
                        if box_size(views) > 3000:
                            continue
                        name = nx.ALG_NAME[int(algorithms[p])]
                        par = pparams[int(param_bounds[p, 0]) : int(param_bounds[p, 1])].tolist()
                        for t in box_points(views):
                            if TYPES[name].rel(list(t), par) is False:
                                self.bad = "%s disabled constraint %d (%s%s) although %s of its views %s violates it" % (where, p, name, par, list(t), views)
                                return


def check_c10(case):
    pc, cfg = case["problem"], dict(case["config"])
    tags = ["cfg:%s/%s" % (cfg["var"], cfg["dom"])] + problem_tags(pc)
    op = tuple(case.get("op", ["iter"]))
    cfg["cons"] = "shaving"
    w = ShavingWatcher(pc)
    out_s = solve.run(pc, cfg, op, order=case.get("order"), detail=True, observers=[w])
    if w.bad:
        return Verdict(False, w.bad + " [%s]" % cfg_tag(cfg), True, tags)
    if out_s.kind == "slow":
        return Verdict(True, "", False, tags + ["inconclusive:slow"])
    if out_s.kind != "ok":
        return Verdict(False, "the run with shaving did not complete (%s: %s)" % (out_s.kind, out_s.msg), True, tags)
    cfg_b = dict(cfg)
    cfg_b["cons"] = "bc"
    out_b = solve.run(pc, cfg_b, op, order=case.get("order"))
    if out_b.kind != "ok":
        return Verdict(True, "", False, tags + ["bc-run-aborted:" + out_b.kind])
    nt = out_s.stats["ALG_SHAVING_CHANGE_NB"] > 0 and out_s.stats["ALG_SHAVING_NO_CHANGE_NB"] > 0
    if out_s.stats["ALG_SHAVING_CHANGE_NB"] > 0:
        tags.append("shaved")
    if op[0] in ("min", "max"):
        vs = None if out_s.value is None else out_s.value[op[1]]
        vb = None if out_b.value is None else out_b.value[op[1]]
        if vs != vb:
            return Verdict(False, "%simize(%d) gives %s with shaving and %s with plain bound consistency [%s/%s]" % (op[0], op[1], vs, vb, cfg["var"], cfg["dom"]), nt, tags)
    else:
        a, b = Counter(out_s.solutions), Counter(out_b.solutions)
        if a != b:
            return Verdict(
                False,
                "enumeration with shaving differs from plain bound consistency: %d vs %d solutions, only with shaving %s, only without %s [%s/%s]"
                % (sum(a.values()), sum(b.values()), [list(x) for x in sorted((a - b).elements())[:3]], [list(x) for x in sorted((b - a).elements())[:3]], cfg["var"], cfg["dom"]),
                nt,
                tags,
            )
    return Verdict(True, "", nt, tags)


@st.composite
def c10_case(draw, tier):
    big = tier != "quick"
    pc = draw(gen.problem_case(max_shr=5 if not big else 7, max_w=4, max_props=4 if not big else 5, max_arity=4, max_points=3000 if not big else 30000, profiles=("general", "general", "bool", "perm", "nonneg", "wide", "onedir", "onedir")))
    cfg = draw(gen.config(pc, cons=["shaving"]))
    nv = len(pc["idx"])
    op = draw(st.sampled_from([["iter"], ["iter"], ["iter"], ["min", draw(st.integers(0, nv - 1))], ["max", draw(st.integers(0, nv - 1))]]))
    case = {"problem": pc, "config": cfg, "op": op}
    if len(pc["props"]) > 1 and draw(st.integers(0, 2)) == 0:
        case["order"] = list(draw(st.permutations(list(range(len(pc["props"]))))))
    return case


# ----------------------------------------------------------------------------------------------
# C17: statistics
# ----------------------------------------------------------------------------------------------
def stat_laws(stats, n, op, out, cfg):
    """List of violated laws: reported statistic vs what the interposers saw."""
    bad = []

    def eq(label, want, what):
        if stats[label] != want:
            bad.append("%s = %d but %s = %d" % (label, stats[label], what, want))

    eq("PROPAGATOR_FILTER_NB", n["filter"], "constraint executions")
    eq("PROPAGATOR_ENTAILMENT_NB", n["filter_ent"] - n["ent_then_fail"], "executions whose outcome is ENTAILMENT (an execution that empties a domain when written back is an inconsistency, not both)")
    eq("PROPAGATOR_INCONSISTENCY_NB", n["bc_inconsistent"], "executions after which the pass failed")
    if n["filter_inc"] > n["bc_inconsistent"]:
        bad.append("%d executions answered INCONSISTENCY but only %d passes failed" % (n["filter_inc"], n["bc_inconsistent"]))
    # an execution that empties a domain on write-back narrows a view: it is in neither count
    eq("PROPAGATOR_FILTER_NO_CHANGE_NB", n["filter_nochange"], "executions that narrowed no view")
    eq("SOLVER_CHOICE_NB", n["choice"], "branching decisions")
    eq("SOLVER_BACKTRACK_NB", n["backtrack_ok"] + n["shave_backtrack"], "successful backtrack() calls")
    eq("SOLVER_CHOICE_DEPTH", n["max_top"], "deepest stack level after a choice")
    eq("ALG_BC_NB", n["bc"], "bound consistency passes")
    eq("ALG_BC_WITH_SHAVING_NB", n["shaving"], "shaving calls")
    eq("ALG_SHAVING_NB", n["shave_try"], "shaving attempts")
    eq("ALG_SHAVING_CHANGE_NB", n["shave_ok"], "successful shaving attempts")
    eq("ALG_SHAVING_NO_CHANGE_NB", n["shave_ko"], "unsuccessful shaving attempts")
    if stats["ALG_SHAVING_CHANGE_NB"] + stats["ALG_SHAVING_NO_CHANGE_NB"] != stats["ALG_SHAVING_NB"]:
        bad.append("ALG_SHAVING_CHANGE_NB + ALG_SHAVING_NO_CHANGE_NB = %d + %d != ALG_SHAVING_NB = %d" % (stats["ALG_SHAVING_CHANGE_NB"], stats["ALG_SHAVING_NO_CHANGE_NB"], stats["ALG_SHAVING_NB"]))
    eq("SOLVER_SOLUTION_NB", n["alg_bound"], "times the search reached a solution")
    if op[0] in ("find_all", "solve_all", "iter", "prefix"):
        eq("SOLVER_SOLUTION_NB", len(out.solutions), "solutions delivered")
    if op[0] in ("find_all", "solve_all", "iter") and cfg["cons"] == "bc":
        eq("SOLVER_BACKTRACK_NB", n["pushes"], "choice points created (exhaustive enumeration)")
        eq("ALG_BC_NB", 1 + stats["SOLVER_CHOICE_NB"] + stats["SOLVER_BACKTRACK_NB"], "1 + choices + backtracks")
    return bad


def check_c17(case):
    pc, cfg, op = case["problem"], case["config"], tuple(case["op"])
    tags = ["cfg:" + cfg_tag(cfg), "op:" + op[0]] + problem_tags(pc)
    if case.get("mp"):
        return check_c17_mp(case, tags)
    out = solve.run(pc, cfg, op, order=case.get("order"))
    if out.kind != "ok" or out.session is None:
        return Verdict(True, "", False, tags + ["aborted:" + out.kind])
    n = out.session.n
    bad = stat_laws(out.stats, n, op, out, cfg)
    nt = (n["filter_ent"] > 0 or n["bc_inconsistent"] > 0) and n["backtrack_ok"] > 0
    if bad:
        return Verdict(False, "; ".join(bad[:3]) + " [%s %s]" % (cfg_tag(cfg), list(op)), nt, tags)
    return Verdict(True, "", nt, tags)


def check_c17_mp(case, tags):
    """Totals of the multiprocessing solver = sums (max for depth) of the workers' final statistics."""
    from vlib import mpfake

    pc, cfg, op, mp = case["problem"], case["config"], tuple(case["op"]), case["mp"]
    tags.append("mp")
    try:
        solvers = engine(mpfake.split_solvers, pc, mp["k"], mp["split_var"], cfg, case.get("order"))
        with mpfake.patched(len(solvers), mp.get("schedule", []), mp.get("late")) as t:
            ms = mpfake.MultiprocessingSolver(solvers, log_level="CRITICAL")
            if op[0] in ("min", "max"):
                engine(ms.minimize if op[0] == "min" else ms.maximize, op[1])
            else:
                engine(lambda: list(ms.solve()))
            total = engine(ms.get_statistics)
    except (EngineError, BudgetExceeded) as e:
        return Verdict(True, "", False, tags + ["aborted:" + getattr(e, "bucket", "budget")])
    except BaseException as e:
        if type(e).__name__ != "FakeDeadlock":
            raise
        return Verdict(True, "", False, tags + ["aborted:deadlock"])
    if t.live_messages():
        w, i = t.live_messages()[0]
        return Verdict(False, "message %d of worker %d carries the worker's live statistics array, modified after the put(): the statistics the parent receives are not those of the moment the solution was sent [workers=%d]" % (i, w, len(solvers)), True, tags)
    if op[0] not in ("min", "max"):
        from vlib.props.mplevel import partial_statistics

        msg = partial_statistics(pc, cfg, mp, case.get("order"))
        if msg:
            return Verdict(False, msg, True, tags)
    finals = [s.get_statistics() for s in solvers]
    bad = []
    for k in total:
        want = max(f[k] for f in finals) if k == "SOLVER_CHOICE_DEPTH" else sum(f[k] for f in finals)
        if total[k] != want:
            bad.append("%s = %d, the %s over the workers' final statistics is %d" % (k, total[k], "maximum" if k == "SOLVER_CHOICE_DEPTH" else "sum", want))
    nt = len(solvers) >= 2 and sum(1 for f in finals if f["SOLVER_CHOICE_NB"] > 0) >= 2
    if bad:
        return Verdict(False, "; ".join(bad[:3]) + " [workers=%d delivery order=%s late=%s]" % (len(solvers), t.order, mp.get("late")), nt, tags)
    return Verdict(True, "", nt, tags)


@st.composite
def c17_case(draw, tier):
    big = tier != "quick"
    pc = draw(gen.problem_case(max_shr=5 if not big else 7, max_w=4, max_props=4 if not big else 5, max_arity=4, max_points=3000 if not big else 30000))
    cfg = draw(gen.config(pc))
    nv = len(pc["idx"])
    kind = draw(st.sampled_from(["iter", "find_all", "prefix", "min", "max", "mp"]))
    case = {"problem": pc, "config": cfg}
    if kind == "prefix":
        case["op"] = ["prefix", draw(st.integers(1, 5))]
    elif kind in ("min", "max"):
        case["op"] = [kind, draw(st.integers(0, nv - 1))]
    elif kind == "mp":
        v = draw(st.integers(0, nv - 1))
        d = pc["shr"][pc["idx"][v]]
        case["mp"] = {
            "k": draw(st.integers(1, min(4, d[1] - d[0] + 2))),
            "split_var": v,
            "schedule": draw(st.lists(st.integers(0, 3), max_size=12)),
            "late": draw(st.lists(st.integers(0, 3), min_size=1, max_size=4)),
        }
        case["op"] = draw(st.sampled_from([["iter"], ["min", draw(st.integers(0, nv - 1))], ["max", draw(st.integers(0, nv - 1))]]))
    else:
        case["op"] = [kind]
    return case


# ----------------------------------------------------------------------------------------------
# C07 (history part): every ENTAILMENT answered inside a real search, on the live box; enabled flags around push/pop
# ----------------------------------------------------------------------------------------------
class EntailWatcher:
    def __init__(self):
        self.bad = None
        self.entailments = 0
        self.nontrivial = 0
        self.frames = {}  # level -> flags row saved when the level was created by a choice

    def on_filter(self, i, inbox, params, status, outbox):
        if self.bad or status != nx.PROP_ENTAILMENT:
            return
        self.entailments += 1
        name = nx.ALG_NAME.get(int(i), "?")
        box = _box(outbox)
        if any(lo > hi for lo, hi in box):
            self.bad = "%s%s answered ENTAILMENT with an empty domain: %s" % (name, list(params), box)
            return
        if box_size(box) > 5000 or name not in TYPES:
            return
        if any(lo < hi for lo, hi in box):
            self.nontrivial += 1
        par = [int(x) for x in params]
        for t in box_points(box):
            if TYPES[name].rel(list(t), par) is False:
                self.bad = "inside the search %s%s answered ENTAILMENT on %s (input %s) although %s violates it" % (name, par, box, _box(inbox), list(t))
                return

    def on_choice(self, i, dom_idx, top, newtop, before, flags, events, shr_stack, flags_stack, upd):
        for l in range(top, newtop + 1):
            self.frames[l] = flags.copy()

    def on_backtrack(self, where, top, ok, flags_stack, upd, stacks_top, triggered, triggers):
        if self.bad or not ok or where != "solver":
            return
        ntop = int(stacks_top[0])
        saved = self.frames.get(ntop)
        if saved is not None and not np.array_equal(saved, flags_stack[ntop]):
            self.bad = "after backtracking to level %d the set of disabled constraints is %s, the one saved for that alternative was %s" % (ntop, (~flags_stack[ntop]).nonzero()[0].tolist(), (~saved).nonzero()[0].tolist())


def check_c07_search(case):
    pc, cfg = case["problem"], case["config"]
    tags = ["search", "cfg:" + cfg_tag(cfg)] + problem_tags(pc)
    w = EntailWatcher()
    out = solve.run(pc, cfg, tuple(case.get("op", ["iter"])), order=case.get("order"), detail=True, observers=[w])
    tags.append("entailments:%s" % ("0" if w.entailments == 0 else "1-5" if w.entailments <= 5 else ">5"))
    if w.bad:
        return Verdict(False, w.bad + " [%s]" % cfg_tag(cfg), True, tags)
    if out.kind not in ("ok", "slow"):
        tags.append("aborted:" + out.kind)
    return Verdict(True, "", w.nontrivial > 0, tags)


@st.composite
def c07_search_case(draw, tier):
    big = tier != "quick"
    pc = draw(gen.problem_case(max_shr=5, max_w=4, max_props=4 if not big else 5, max_arity=4, max_points=3000 if not big else 20000, profiles=("general", "wide", "nonneg", "bool", "general")))
    cfg = draw(gen.config(pc))
    nv = len(pc["idx"])
    return {"kind": "search", "problem": pc, "config": cfg, "op": draw(st.sampled_from([["iter"], ["iter"], ["min", draw(st.integers(0, nv - 1))], ["max", draw(st.integers(0, nv - 1))]]))}


CHECKS = {"C08": check_c08, "C10": check_c10, "C17": check_c17}
RULES = {
    "C08": "cases = generated problem x configuration x operation x posting order x drawn priority order of the propagation queue; every non-failing exit of every propagation pass of the real search "
    "(root, after each branch, after each backtrack, inside shaving) is checked: non-empty, contained in the entry state, every enabled constraint re-executed on the result neither fails nor narrows "
    "(except no_sub_cycle), and for all-exact-BC problems the result equals the reference largest common fixpoint; plus propagator-level trigger sufficiency cases (fixpoint box + one unwatched bound change) "
    "and trigger-matrix cases (union of masks over repeated shared domains); non-trivial = a run with a pass in which >= 2 propagators executed and >= 1 value was removed, "
    "resp. a trigger case in which the unwatched change was applied; distinct by SHA-1 of the canonical case",
    "C10": "cases = generated problem x heuristics x operation; every invocation of the shaving algorithm inside the real search is observed (stack height, levels below, containment in plain BC run on a copy of the entry state, "
    "no brute-force solution of the entry sub-box lost, flags cleared only for entailed constraints) and the whole run is compared with the same run under plain bound consistency; "
    "non-trivial = run with >= 1 successful and >= 1 unsuccessful shave; distinct by SHA-1 of the canonical case",
    "C17": "cases = generated problem x configuration x run kind (full enumeration, prefix of the iterator, minimise, maximise, multiprocessing over split() with drawn delivery order and statistics snapshots); "
    "oracle = event counts seen by the interposers vs get_statistics(), conservation laws for exhaustive BC enumeration, sums/max over workers; "
    "non-trivial = run with >= 1 entailment or inconsistency and >= 1 backtrack (mp: >= 2 workers that made choices); distinct by SHA-1 of the canonical case",
}
STRATS = {"C08": c08_case, "C10": c10_case, "C17": c17_case}
EXAMPLES = {"C08": {"quick": 1200, "thorough": 12000}, "C10": {"quick": 1500, "thorough": 15000}, "C17": {"quick": 1500, "thorough": 15000}}


def jobs(prop, tier):
    js = [{"name": "hyp-I", "mode": "I", "shards": 16 if prop != "C08" else 12}]
    if prop == "C08":
        js.append({"name": "trig", "mode": "I", "shards": 3})
        js.append({"name": "matrix", "mode": "I", "shards": 1})
    return js


def run(prop, job, shard, nshards, seed, tier):
    from vlib.run import Recorder, drive, shard_seed

    rec = Recorder()
    if job["name"] == "trig":
        drive(trig_case(tier), check_trigger, rec, shard_seed(seed, shard, 11), 6000 if tier == "quick" else 60000)
    elif job["name"] == "matrix":
        drive(matrix_case(tier), check_matrix, rec, shard_seed(seed, shard, 12), 1500 if tier == "quick" else 15000)
    else:
        drive(STRATS[prop](tier), CHECKS[prop], rec, shard_seed(seed, shard, 5), EXAMPLES[prop][tier], shrink_budget_s=90)
    return rec.result()


def replay(prop, case):
    return CHECKS[prop](case)
