"""
C11 (the multiprocessing solver equals the sequential solver for every interleaving) and C12 (splitting
partitions the search space).  DESIGN.md 4.
"""

import copy
from collections import Counter

from hypothesis import strategies as st

from vlib import gen, nx, solve
from vlib.props.solverlevel import cfg_tag, problem_tags
from vlib.ref import brute_force, shr_box_size, violated_constraints
from vlib.run import BudgetExceeded, EngineError, Verdict, engine


# ----------------------------------------------------------------------------------------------
# C11
# ----------------------------------------------------------------------------------------------
def check_c11(case):
    from vlib import mpfake

    pc, cfg, op, mp = case["problem"], case["config"], tuple(case["op"]), case["mp"]
    tags = ["cfg:" + cfg_tag(cfg), "op:" + op[0], "k:%d" % mp["k"]] + problem_tags(pc)
    real = case.get("real", False)
    # sequential reference: one backtracking solver on the whole problem
    seq = solve.run(pc, cfg, op, order=case.get("order"))
    if seq.kind != "ok":
        return Verdict(True, "", False, tags + ["sequential-aborted:" + seq.kind])
    try:
        solvers = engine(mpfake.split_solvers, pc, mp["k"], mp["split_var"], cfg, case.get("order"))
    except EngineError as e:
        return Verdict(False, "split()/solver construction raised %s" % e.bucket, False, tags)
    t = None
    try:
        if real:
            tags.append("real-processes")
            ms = mpfake.MultiprocessingSolver(solvers, log_level="CRITICAL")
            if op[0] in ("min", "max"):
                r = engine(ms.minimize if op[0] == "min" else ms.maximize, op[1])
                sols, value = [], (None if r is None else nx.vec(r))
            else:
                sols, value = [nx.vec(s) for s in engine(lambda: list(ms.solve()))], None
            total = engine(ms.get_statistics)
        else:
            with mpfake.patched(len(solvers), mp.get("schedule", []), mp.get("late")) as t:
                ms = mpfake.MultiprocessingSolver(solvers, log_level="CRITICAL")
                if op[0] in ("min", "max"):
                    r = engine(ms.minimize if op[0] == "min" else ms.maximize, op[1])
                    sols, value = [], (None if r is None else nx.vec(r))
                else:
                    sols, value = [nx.vec(s) for s in engine(lambda: list(ms.solve()))], None
                total = engine(ms.get_statistics)
    except BudgetExceeded as e:
        return Verdict(False, "the multiprocessing run does not terminate: %s" % e, True, tags)
    except EngineError as e:
        return Verdict(False, "the multiprocessing solver raised %s although no worker failed [k=%d split_var=%d schedule=%s]" % (e.bucket, mp["k"], mp["split_var"], mp.get("schedule")), True, tags)
    except BaseException as e:
        if type(e).__name__ != "FakeDeadlock":
            raise
        return Verdict(False, "the parent waits for a message although every worker has finished and everything sent was delivered (it would block forever) [k=%d split_var=%d delivery=%s]" % (mp["k"], mp["split_var"], t.order), True, tags)
    nworkers = len(solvers)
    nt = False
    if t is not None and t.live_messages():
        w, i = t.live_messages()[0]
        return Verdict(False, "message %d of worker %d carries the worker's live statistics array, modified after the put(): what the parent receives depends on when the queue pickles it [k=%d]" % (i, w, mp["k"]), True, tags)
    if t is not None and op[0] not in ("min", "max"):
        bad = partial_statistics(pc, cfg, mp, case.get("order"))
        if bad:
            return Verdict(False, bad, True, tags)
    if t is not None:
        with_sol = sum(1 for s_ in t.streams if len(s_) > 1)
        nt = nworkers >= 2 and with_sol >= 2 and t.order != sorted(t.order)
        if t.empties:
            tags.append("parent-timeouts")
        if any(len(s_) == 1 for s_ in t.streams):
            tags.append("worker-without-solution")
        if t.gets != t.total():
            return Verdict(False, "the call returned after reading %d of the %d messages sent by the workers (delivery order %s)" % (t.gets, t.total(), t.order), nt, tags)
    else:
        nt = nworkers >= 2
    where = "[k=%d split_var=%d delivery=%s %s]" % (mp["k"], mp["split_var"], None if t is None else t.order, cfg_tag(cfg))
    if op[0] in ("min", "max"):
        vs = None if seq.value is None else seq.value[op[1]]
        vm = None if value is None else value[op[1]]
        if vs != vm:
            return Verdict(False, "%simize(%d): multiprocessing gives %s, one sequential solver gives %s %s" % (op[0], op[1], vm, vs, where), nt, tags)
        if value is not None and violated_constraints(pc, value):
            return Verdict(False, "%simize(%d): multiprocessing returned %s which is not a solution %s" % (op[0], op[1], list(value), where), nt, tags)
    else:
        a, b = Counter(sols), Counter(seq.solutions)
        if a != b:
            return Verdict(
                False,
                "enumeration through the multiprocessing solver differs from one sequential solver: %d vs %d solutions, only mp %s, only sequential %s %s"
                % (sum(a.values()), sum(b.values()), [list(x) for x in sorted((a - b).elements())[:3]], [list(x) for x in sorted((b - a).elements())[:3]], where),
                nt,
                tags,
            )
    # statistics: sums (max for depth) of the workers' final statistics
    if not real:
        finals = [s.get_statistics() for s in solvers]
        for k in total:
            want = max(f[k] for f in finals) if k == "SOLVER_CHOICE_DEPTH" else sum(f[k] for f in finals)
            if total[k] != want:
                return Verdict(False, "aggregated %s = %d, the %s of the workers' final statistics is %d %s late=%s" % (k, total[k], "maximum" if k == "SOLVER_CHOICE_DEPTH" else "sum", want, where, mp.get("late")), nt, tags)
    else:
        if op[0] not in ("min", "max") and total["SOLVER_SOLUTION_NB"] != len(sols):
            return Verdict(False, "aggregated SOLVER_SOLUTION_NB = %d but %d solutions were delivered %s" % (total["SOLVER_SOLUTION_NB"], len(sols), where), nt, tags)
    return Verdict(True, "", nt, tags)


def partial_statistics(pc, cfg, mp, order, taken=(1, 2)):
    """Partial enumeration: after j solutions have been delivered, get_statistics() answers and counts j solutions."""
    from vlib import mpfake

    for j in taken:
        solvers = engine(mpfake.split_solvers, pc, mp["k"], mp["split_var"], cfg, order)
        try:
            with mpfake.patched(len(solvers), mp.get("schedule", [])) as t:
                ms = mpfake.MultiprocessingSolver(solvers, log_level="CRITICAL")
                it = ms.solve()
                got = 0
                for _ in range(j):
                    if engine(lambda: next(it, None)) is None:
                        break
                    got += 1
                if got < j:
                    return None
                try:
                    total = engine(ms.get_statistics)
                except EngineError as e:
                    return "get_statistics() raised %s after %d solution(s) of a multiprocessing enumeration had been delivered [k=%d]" % (e.bucket, got, mp["k"])
                if total["SOLVER_SOLUTION_NB"] != got:
                    return "after %d delivered solution(s) of a multiprocessing enumeration SOLVER_SOLUTION_NB = %d [k=%d delivery=%s]" % (got, total["SOLVER_SOLUTION_NB"], mp["k"], t.order)
        except (BudgetExceeded, EngineError):
            return None
        except BaseException as e:
            if type(e).__name__ != "FakeDeadlock":
                raise
            return None
    return None


@st.composite
def c11_case(draw, tier, real=False):
    big = tier != "quick"
    pc = draw(gen.problem_case(max_shr=5, max_w=4, max_props=3 if not big else 4, max_arity=4, max_points=2000 if not big else 10000, min_props=0))
    cfg = draw(gen.config(pc))
    nv = len(pc["idx"])
    v = draw(st.integers(0, nv - 1))
    d = pc["shr"][pc["idx"][v]]
    k = draw(st.integers(1, min(5, d[1] - d[0] + 3)))
    op = draw(st.sampled_from([["iter"], ["iter"], ["min", draw(st.integers(0, nv - 1))], ["max", draw(st.integers(0, nv - 1))]]))
    case = {"problem": pc, "config": cfg, "op": op, "mp": {"k": k, "split_var": v}}
    if real:
        case["real"] = True
    else:
        case["mp"]["schedule"] = draw(st.lists(st.sampled_from([0, 1, 2, 3, 4, 0, 1, 2, -1, -1]), max_size=40))
        case["mp"]["late"] = draw(st.lists(st.integers(0, 3), min_size=1, max_size=5))
    return case


# ----------------------------------------------------------------------------------------------
# C12
# ----------------------------------------------------------------------------------------------
def _snapshot(pb):
    return copy.deepcopy((pb.shr_domains_lst, pb.dom_indices_lst, pb.dom_offsets_lst, [(list(v), int(a), list(p)) for v, a, p in pb.propagators], pb.shr_domain_nb, pb.propagator_nb))


def build_api(case):
    """The same problem built with add_variable(s) for the variables that own their shared domain."""
    n = len(case["shr"])
    m = max(1, n // 2)
    pb = nx.Problem([tuple(d) for d in case["shr"][:m]], list(range(m)), list(case["off"][:m]))
    rest = list(range(m, n))
    if rest:
        half = rest[: len(rest) // 2]
        if half:
            pb.add_variables([tuple(case["shr"][i]) for i in half], None, [case["off"][i] for i in half])
        for i in rest[len(half) :]:
            pb.add_variable(tuple(case["shr"][i]), None, case["off"][i])
    for pr in case["props"]:
        pb.add_propagator((list(pr["vars"]), nx.ALG[pr["type"]], list(pr["params"])))
    return pb


def check_c12(case):
    pc, cfg, var, k = case["problem"], case["config"], case["var"], case["k"]
    tags = ["cfg:" + cfg_tag(cfg)] + problem_tags(pc)
    api = case.get("api") and pc["idx"] == list(range(len(pc["shr"])))  # every variable owns the domain of its own index
    if api:
        tags.append("built-with-add_variable")
    pb = engine(build_api, pc) if api else nx.build_problem(pc)
    if case.get("presolve"):
        # a problem object on which a solver has already been built (and used) is still the same problem
        tags.append("solver-built-before-split")
        first = engine(nx.make_solver, pb, cfg, nx.needed_height(pc, cfg))
        it = first.solve()
        for _ in range(case["presolve"] - 1):
            engine(lambda: next(it, None))
    before = _snapshot(pb)
    d = pc["idx"][var]
    a, b = pc["shr"][d]
    size = b - a + 1
    shares = pc["idx"].count(d) > 1 or var != d
    nt = k >= 2 and (size % k != 0 or k > size or shares)
    tags.append("k>size" if k > size else "k|size" if size % k == 0 else "k-not-dividing")
    if shares:
        tags.append("split-var-shares-domain")
    try:
        subs = engine(pb.split, k, var)
    except EngineError as e:
        return Verdict(False, "split(%d, %d) raised %s" % (k, var, e.bucket), nt, tags)
    where = "split(%d, variable %d with shared domain %d = [%d,%d])" % (k, var, d, a, b)
    if _snapshot(pb) != before:
        return Verdict(False, "%s modified the original problem" % where, nt, tags)
    if not (1 <= len(subs) <= k) or (k <= size and len(subs) != k):
        return Verdict(False, "%s returned %d sub-problems" % (where, len(subs)), nt, tags)
    parts = []
    for i, sp in enumerate(subs):
        snap = _snapshot(sp)
        for j in range(len(before)):
            if j == 0:
                for dd in range(len(before[0])):
                    if dd != d and snap[0][dd] != before[0][dd]:
                        return Verdict(False, "%s: sub-problem %d differs from the original in shared domain %d: %s vs %s" % (where, i, dd, snap[0][dd], before[0][dd]), nt, tags)
            elif snap[j] != before[j]:
                return Verdict(False, "%s: sub-problem %d differs from the original beyond the split domain (component %d)" % (where, i, j), nt, tags)
        parts.append(list(snap[0][d]))
        if any(sp is other for other in subs[:i]) or sp is pb or sp.shr_domains_lst is pb.shr_domains_lst:
            return Verdict(False, "%s: sub-problem %d shares state with another problem object" % (where, i), nt, tags)
    if any(lo > hi for lo, hi in parts):
        return Verdict(False, "%s produced an empty sub-domain: %s" % (where, parts), nt, tags)
    cover = [v for lo, hi in parts for v in range(lo, hi + 1)]
    if cover != list(range(a, b + 1)):
        return Verdict(False, "%s: sub-domains %s are not an ordered partition of [%d,%d]" % (where, parts, a, b), nt, tags)
    # semantic part
    sols, und = brute_force(pc)
    if und:
        return Verdict(True, "", False, tags, excluded="undecided-relation")
    expect = Counter(v for _, v in sols)
    got = Counter()
    for i, sp in enumerate(subs):
        sub_case = dict(pc)
        sub_case["shr"] = [list(x) for x in pc["shr"]]
        sub_case["shr"][d] = parts[i]
        out = solve.run(sub_case, cfg, ("iter",), pb=sp)
        if out.kind == "slow":
            return Verdict(True, "", False, tags + ["inconclusive:slow"])
        if out.kind != "ok":
            return Verdict(False, "%s: sub-problem %d (%s) cannot be enumerated (%s: %s)" % (where, i, parts[i], out.kind, out.msg), nt, tags)
        c = Counter(out.solutions)
        common = got & c
        if common:
            return Verdict(False, "%s: solution %s is found in two sub-problems" % (where, list(next(iter(common)))), nt, tags)
        got += c
    if _snapshot(pb) != before:
        return Verdict(False, "%s: solving the sub-problems modified the original problem (shared state)" % where, nt, tags)
    # the sub-problems are problems of their own: changing one of them changes neither the others nor the original
    if subs:
        snaps = [_snapshot(sp) for sp in subs]
        subs[0].add_propagator(([0], nx.ALG["dummy"], []))
        subs[0].shr_domains_lst[0][0] = subs[0].shr_domains_lst[0][0]  # (touch)
        for i, sp in enumerate(subs[1:], 1):
            if _snapshot(sp) != snaps[i]:
                return Verdict(False, "%s: adding a constraint to sub-problem 0 changed sub-problem %d (shared state)" % (where, i), nt, tags)
        if _snapshot(pb) != before:
            return Verdict(False, "%s: adding a constraint to sub-problem 0 changed the original problem (shared state)" % where, nt, tags)
        for name_ in ("propagators", "dom_indices_lst", "dom_offsets_lst", "shr_domains_lst"):
            objs = [getattr(x, name_) for x in [pb] + list(subs)]
            if len({id(o) for o in objs}) != len(objs):
                return Verdict(False, "%s: the attribute %s is one shared object for several of the problems" % (where, name_), nt, tags)
        rows = [id(r) for x in [pb] + list(subs) for r in x.shr_domains_lst]
        if len(set(rows)) != len(rows):
            return Verdict(False, "%s: rows of shr_domains_lst are shared between problems" % where, nt, tags)
    if got != expect:
        return Verdict(
            False,
            "%s: the union of the sub-problems' solutions differs from the original solution set: %d vs %d, extra %s missing %s"
            % (where, sum(got.values()), sum(expect.values()), [list(x) for x in sorted((got - expect).elements())[:3]], [list(x) for x in sorted((expect - got).elements())[:3]]),
            nt,
            tags,
        )
    return Verdict(True, "", nt, tags)


@st.composite
def c12_case(draw, tier):
    big = tier != "quick"
    pc = draw(gen.problem_case(max_shr=5, max_w=4 if not big else 6, max_props=3, max_arity=4, max_points=1500 if not big else 8000, min_props=0))
    cfg = draw(gen.config(pc, cons=["bc", "bc", "shaving"]))
    nv = len(pc["idx"])
    var = draw(st.integers(0, nv - 1))
    d = pc["shr"][pc["idx"][var]]
    k = draw(st.integers(1, d[1] - d[0] + 4))
    return {"problem": pc, "config": cfg, "var": var, "k": k, "api": draw(st.booleans()), "presolve": draw(st.sampled_from([0, 0, 1, 2, 3]))}


CHECKS = {"C11": check_c11, "C12": check_c12}
RULES = {
    "C11": "cases = generated problem x split(k, variable) (k >= 1, incl. workers without solution) x operation (enumerate / minimise / maximise) x delivery schedule of the workers' message streams "
    "(in-process transport owned by the harness: every merge order reachable, statistics snapshots at or after the put) and, on a sample, real forked processes; oracle = one sequential BacktrackSolver on the whole problem, "
    "exactly one get() per message, aggregated statistics = sum/max of the workers' final statistics; non-trivial = >= 2 workers with >= 1 solution each and a non-sequential merge order; distinct by SHA-1 of the canonical case",
    "C12": "cases = generated problem (constructor or add_variable(s) form) x variable (own or shared domain, offsets) x k from 1 to beyond the domain size x configuration; structural oracle (original untouched, "
    "sub-problems identical except the split domain, ordered partition into non-empty ranges) and semantic oracle (each sub-problem enumerates within the progress budget, pairwise disjoint, union = brute-force solution set); "
    "non-trivial = k >= 2 and (k does not divide the size, or k > size, or the variable shares its domain); distinct by SHA-1 of the canonical case",
}
EXAMPLES = {"C11": {"quick": (1400, 500, 12), "thorough": (14000, 5000, 150)}, "C12": {"quick": (1400, 500, 0), "thorough": (14000, 5000, 0)}}


def jobs(prop, tier):
    js = [{"name": "hyp-I", "mode": "I", "shards": 14}, {"name": "hyp-J", "mode": "J", "shards": 6}]
    if prop == "C11":
        js.append({"name": "real-J", "mode": "J", "shards": 2, "case_timeout": 120})
    return js


def run(prop, job, shard, nshards, seed, tier):
    from vlib.run import Recorder, drive, shard_seed

    rec = Recorder()
    n_i, n_j, n_real = EXAMPLES[prop][tier]
    if job["name"] == "real-J":
        drive(c11_case(tier, real=True), check_c11, rec, shard_seed(seed, shard, 23), n_real, shrink=False)
    else:
        strat = c11_case(tier) if prop == "C11" else c12_case(tier)
        drive(strat, CHECKS[prop], rec, shard_seed(seed, shard, 21 if job["mode"] == "I" else 22), n_i if job["mode"] == "I" else n_j, shrink_budget_s=90)
    return rec.result()


def replay(prop, case):
    return CHECKS[prop](case)
