"""
C16 — no in-contract input makes the engine read or write outside its arrays (DESIGN.md 4).

Mode I: an out-of-range access is an IndexError (or an OverflowError when a negative value is stored into an
unsigned index array) raised from a nucs frame.  Mode B: the same cases on an engine compiled with
NUMBA_BOUNDSCHECK=1 (own cache directory): direct calls raise IndexError, calls made through the address
tables print "IndexError ... out of bounds" on stderr ("Exception ignored"), which is captured per case.

Case: {"kind": "box", "type", "params", "box"} | {"kind": "solve", "problem", "config", "op"}
"""

import os

from hypothesis import strategies as st

from vlib import gen, nx
from vlib.catalogue import in_contract
from vlib.run import EngineError, Verdict, engine

BOUNDSCHECK = bool(os.environ.get("NUMBA_BOUNDSCHECK")) and not nx.INTERPRETED
INDEX_ERRORS = ("IndexError", "OverflowError")

_cap = {"pos": 0, "path": None}


def _capture_start():
    if _cap["path"] is None:
        path = (os.environ.get("VERIF_JOURNAL") or "/tmp/c16-%d" % os.getpid()) + ".stderr"
        fd = os.open(path, os.O_WRONLY | os.O_CREAT | os.O_TRUNC, 0o600)
        os.dup2(fd, 2)
        os.close(fd)
        _cap["path"] = path
        _cap["pos"] = 0


def _capture_new():
    try:
        with open(_cap["path"], "rb") as f:
            f.seek(_cap["pos"])
            data = f.read()
    except OSError:
        return ""
    _cap["pos"] += len(data)
    return data.decode("utf-8", "replace")


def _is_index_error(bucket):
    return bucket.split("@")[0] in INDEX_ERRORS


def nontrivial_box(case):
    name, box, params = case["type"], case["box"], case["params"]
    if name in ("alldifferent", "gcc") and len(box) >= 3:
        return True
    if name == "element_iv":
        return box[0][0] < 0 or box[0][1] >= len(params)
    if name == "element_lic":
        return box[-1][0] < 0 or box[-1][1] >= len(box) - 1
    if name == "element_liv":
        return box[-2][0] < 0 or box[-2][1] >= len(box) - 2
    if name in ("no_sub_cycle", "scc") and len(box) >= 3:
        return True
    if name == "relation" and len(params) >= 3 * len(box):
        return True
    return False


def model_cases(tier):
    """Shipped models over a range of sizes (construction runs compiled helper routines of the models, the first solution
    runs every propagator on the shapes the models produce)."""
    big = tier != "quick"
    cs = []

    def add(model, args, first=True):
        cs.append({"kind": "model", "model": model, "args": args, "first": first})

    for n in range(1, 13):
        add("queens", [n])
    for n in (20, 50) + ((100, 200) if big else ()):
        add("queens", [n], first=False)
    for n in range(1, 6):
        add("latin_square", [n])
        add("latin_square_rc", [n])
    for n in range(3, 10):
        for sym in (True, False):
            add("qg5", [n, sym], first=n <= 5 or (n <= 8 and sym and not nx.INTERPRETED))
    for sym in (True, False):
        add("magic_square", [3, sym])
        add("magic_square", [4, sym], first=not nx.INTERPRETED)
        add("magic_square", [5, sym], first=False)
    for n in list(range(1, 16)) + [30, 50] + ([100, 200] if big else []):
        add("magic_sequence", [n], first=n <= 30 or not nx.INTERPRETED)
    for n in range(2, 21):
        for sym in (True, False):
            add("golomb", [n, sym], first=n <= 6 or (n <= 8 and not nx.INTERPRETED))
    for a in ([3, 3, 2, 2, 1], [4, 6, 3, 2, 1], [4, 4, 3, 3, 2], [7, 7, 3, 3, 1], [6, 10, 5, 3, 2], [8, 14, 7, 4, 3]):
        for sym in (True, False):
            add("bibd", a + [sym], first=a[0] <= 4 or (sym and not nx.INTERPRETED))
    for n in range(1, 21):
        for sym in (True, False):
            add("schur", [n, sym], first=n <= 8 or (n <= 13 and not nx.INTERPRETED))
    for n in (2, 4, 6, 8) + ((10,) if big else ()):
        for sym in (True, False):
            add("sts", [n, sym], first=n <= 4 or (n <= 6 and not nx.INTERPRETED))
    add("knapsack", [[3, 4, 5, 2], [2, 3, 4, 1], 6])
    add("knapsack", [[40, 40, 38, 38, 36, 36, 34, 34, 32, 32, 30, 30], [40, 40, 38, 38, 36, 36, 34, 34, 32, 32, 30, 30], 75])
    for n in range(2, 12):
        add("circuit", [n])
    add("tsp", [[[0, 2, 1, 2], [2, 0, 2, 1], [1, 2, 0, 2], [2, 1, 2, 0]]])
    add("tsp", [[[0, 5, 1, 7, 3], [2, 0, 4, 1, 9], [8, 2, 0, 2, 6], [3, 9, 2, 0, 1], [1, 1, 5, 4, 0]]])
    add("sudoku", [0])
    add("sudoku", [1])
    add("alpha", [], first=not nx.INTERPRETED)
    add("donald", [], first=not nx.INTERPRETED)
    return cs


def check_model(case):
    from vlib.props import c20

    model, args = case["model"], case["args"]
    tags = ["model:" + model, "first-solution" if case["first"] else "construction-only"]
    where = "%s%s" % (model, args if model != "tsp" else "(%d cities)" % len(args[0]))
    for cons in ("bc",) + (("golomb",) if model == "golomb" and case["first"] else ()):
        try:
            pb = engine(c20.build, model, args)
            solver = engine(c20.make_solver, pb, model, args, {"cons": cons, "var": "first", "dom": "min"})
            if case["first"]:
                engine(lambda: next(solver.solve(), None))
        except EngineError as e:
            if _is_index_error(e.bucket):
                return Verdict(False, "%s: %s raised %s" % (where, "building the model / its first solution", e.bucket), True, tags)
            tags.append("other-exception:" + e.bucket.split("@")[0])
        if BOUNDSCHECK:
            err = _capture_new()
            if "IndexError" in err or "out of bounds" in err:
                return Verdict(False, "%s: bounds-checked engine reports %s" % (where, err.strip().splitlines()[-1][:200]), True, tags)
    return Verdict(True, "", True, tags)


def check(case):
    if BOUNDSCHECK:
        _capture_start()
    if case["kind"] == "model":
        return check_model(case)
    if case["kind"] == "box":
        assert in_contract(case["type"], case["params"], case["box"]), case
        tags = ["box:" + case["type"], "n:%d" % min(len(case["box"]), 12)]
        nt = nontrivial_box(case)
        try:
            engine(nx.compute_domains, case["type"], case["box"], case["params"])
        except EngineError as e:
            if _is_index_error(e.bucket):
                return Verdict(False, "%s%s on %s raised %s" % (case["type"], case["params"], case["box"], e.bucket), nt, tags)
            tags.append("other-exception:" + e.bucket)
        if BOUNDSCHECK:
            err = _capture_new()
            if "IndexError" in err or "out of bounds" in err:
                return Verdict(False, "%s%s on %s: bounds-checked engine reports %s" % (case["type"], case["params"], case["box"], err.strip().splitlines()[-1][:200]), nt, tags)
        return Verdict(True, "", nt, tags)
    from vlib import solve
    from vlib.props.solverlevel import cfg_tag, problem_tags

    pc, cfg, op = case["problem"], case["config"], tuple(case["op"])
    tags = ["solve", "cfg:" + cfg_tag(cfg)] + problem_tags(pc)
    nt = cfg["var"] == "max_regret" or cfg["dom"] == "min_cost" or any(p["type"] in ("alldifferent", "gcc", "no_sub_cycle", "scc", "element_iv", "element_lic", "element_liv", "relation") and len(p["vars"]) >= 3 for p in pc["props"])
    watcher = None
    observers = []
    if nx.INTERPRETED:

        class W:
            bad = None

            def on_var_choice(self, i, r, decision_domains, shr_domains_stack, stacks_top):
                top = int(stacks_top[0])
                if r < 0 and any(shr_domains_stack[top, d, 0] < shr_domains_stack[top, d, 1] for d in decision_domains) and self.bad is None:
                    self.bad = "variable heuristic %d returned the domain index %d, which the engine then uses as an (wrapping) array index" % (i, r)

        watcher = W()
        observers = [watcher]
    out = solve.run(pc, cfg, op, order=case.get("order"), detail=bool(observers), observers=observers)
    where = "[%s %s]" % (cfg_tag(cfg), list(op))
    if watcher is not None and watcher.bad:
        return Verdict(False, watcher.bad + " " + where, nt, tags)
    if out.kind == "error" and _is_index_error(out.msg.replace("solver construction raised ", "")):
        return Verdict(False, "the run raised %s %s" % (out.msg, where), nt, tags)
    if out.kind != "ok":
        tags.append("aborted:" + out.kind)
    if BOUNDSCHECK:
        err = _capture_new()
        if "IndexError" in err or "out of bounds" in err:
            return Verdict(False, "bounds-checked engine reports %s %s" % (err.strip().splitlines()[-1][:200], where), nt, tags)
    return Verdict(True, "", nt, tags)


@st.composite
def heavy_box(draw, tier):
    """Boxes that stress the scratch arrays and the index clamping."""
    big = tier != "quick"
    kind = draw(st.sampled_from(["alldifferent", "gcc", "gcc", "gcc", "element_iv", "element_lic", "element_liv", "no_sub_cycle", "scc", "relation", "any"]))
    if kind == "any":
        c = draw(gen.box_case(max_n=6, max_w=4))
    elif kind in ("alldifferent", "gcc"):
        n = draw(st.integers(3, 12 if not big else 16))
        style = draw(st.sampled_from(["equal", "nested", "random", "points"]))
        lo0 = draw(st.integers(-3, 3))
        w = draw(st.integers(0, n + 1))
        box = []
        for i in range(n):
            if style == "equal":
                box.append([lo0, lo0 + w])
            elif style == "nested":
                a = lo0 + min(i, w // 2)
                box.append([a, max(a, lo0 + w - min(i, w // 2))])
            elif style == "points":
                a = lo0 + draw(st.integers(0, w))
                box.append([a, a])
            else:
                a = lo0 + draw(st.integers(0, w))
                box.append([a, min(lo0 + w, a + draw(st.integers(0, 3)))])
        if kind == "alldifferent":
            c = {"type": kind, "params": [], "box": box}
        else:
            params = draw(gen.params_for("gcc", box))
            if draw(st.integers(0, 2)) == 0:
                # a zero capacity exactly on a bound of the span of the domains (first / last value actually reachable)
                m = (len(params) - 1) // 2
                v = (max(b[1] for b in box) if draw(st.booleans()) else min(b[0] for b in box)) - params[0]
                params[1 + v] = 0
                params[1 + m + v] = 0
            c = {"type": kind, "params": params, "box": box}
    elif kind == "element_iv":
        ln = draw(st.integers(1, 8))
        params = draw(st.lists(st.integers(-3, 4), min_size=ln, max_size=ln))
        a = draw(st.integers(-4, ln + 2))
        c = {"type": kind, "params": params, "box": [[a, a + draw(st.integers(0, ln + 3))], draw(gen.interval(-4, 5, 5))]}
    elif kind in ("element_lic", "element_liv"):
        n = draw(st.integers(1, 8))
        xs = [draw(gen.interval(-3, 4, 4)) for _ in range(n)]
        a = draw(st.integers(-4, n + 2))
        ib = [a, a + draw(st.integers(0, n + 3))]
        if kind == "element_lic":
            c = {"type": kind, "params": [draw(st.integers(-3, 4))], "box": xs + [ib]}
        else:
            c = {"type": kind, "params": [], "box": xs + [ib, draw(gen.interval(-3, 4, 4))]}
    elif kind in ("no_sub_cycle", "scc"):
        n = draw(st.integers(3 if kind == "no_sub_cycle" else 2, 9))
        box = [draw(gen.interval(0, n - 1, n - 1)) for _ in range(n)]
        c = {"type": kind, "params": [], "box": box}
    else:
        n = draw(st.integers(1, 5))
        box = [draw(gen.interval(-3, 4, 4)) for _ in range(n)]
        k = draw(st.integers(1, 12))
        tuples = [[draw(st.integers(b[0] - 1, b[1] + 1)) for b in box] for _ in range(k)]
        c = {"type": kind, "params": [x for t in tuples for x in t], "box": box}
    c["kind"] = "box"
    return c


@st.composite
def solve_case(draw, tier):
    big = tier != "quick"
    pc = draw(gen.problem_case(max_shr=6, max_w=4, max_props=4 if not big else 5, max_arity=5, max_points=3000 if not big else 20000, profiles=("nonneg", "nonneg", "perm", "general", "wide", "bool")))
    cfg = draw(gen.config(pc))
    nv = len(pc["idx"])
    op = draw(st.sampled_from([["iter"], ["iter"], ["prefix", 2], ["min", draw(st.integers(0, nv - 1))], ["max", draw(st.integers(0, nv - 1))]]))
    return {"kind": "solve", "problem": pc, "config": cfg, "op": op}


META = {
    "level": "exploration",
    "rule": "cases = (a) single filtering calls on boxes that stress scratch arrays and index clamping (alldifferent/gcc with up to 12-16 variables and many equal / nested / point bounds, element_* with index domains straddling "
    "the list ends, no_sub_cycle/scc on [0,n-1], relation with many tuples) (b) real searches on generated problems with cost tables exactly as wide as the domains, and (c) every shipped model built over a range of instance sizes (Golomb 2-20 marks, queens up to 50-200, magic sequence up to 50-200, Schur 1-20, quasigroups 3-9, BIBD, tournaments, circuits 2-11, ...) and asked for its first solution where that takes seconds; oracle = no IndexError/OverflowError from a nucs frame under "
    "interpretation, no bounds violation reported by the engine compiled with NUMBA_BOUNDSCHECK=1 (stderr captured per case), no negative domain index returned by a variable heuristic; "
    "non-trivial = a case exercising a scratch-array / index path (>= 3 variables in a Hall-interval or graph propagator, index domain partly outside the list, >= 3 tuples, cost heuristics); distinct by SHA-1 of the canonical case",
    "assumptions": ["a negative index wraps silently in NumPy and Numba: it is visible only through its consequences (heuristic result -1, wrong answers in C01/C02)"],
}
REPLAY_MODE = "I"
EXAMPLES = {"quick": (3000, 800, 1500, 300), "thorough": (30000, 8000, 15000, 3000)}


def jobs(tier):
    return [
        {"name": "box-I", "mode": "I", "shards": 6},
        {"name": "solve-I", "mode": "I", "shards": 6},
        {"name": "box-B", "mode": "B", "shards": 2},
        {"name": "solve-B", "mode": "B", "shards": 2},
        # the running time of a shipped model depends on the instance: a time-out is "inconclusive", never a violation
        {"name": "models-I", "mode": "I", "shards": 4, "case_timeout": 600, "slow_ok": True},
        {"name": "models-B", "mode": "B", "shards": 4, "case_timeout": 600, "slow_ok": True},
    ]


def run(job, shard, nshards, seed, tier):
    from vlib.run import Recorder, drive, shard_seed

    rec = Recorder()
    if job["name"].startswith("models"):
        import json
        import time

        journal = os.environ.get("VERIF_JOURNAL")
        for i, case in enumerate(model_cases(tier)):
            if i % nshards != shard:
                continue
            if journal:
                with open(journal, "w") as jf:
                    json.dump({"t": time.time(), "case": case}, jf)
            v = check(case)
            rec.record(case, v)
            if not v.ok:
                rec.failures.append({"case": case, "msg": v.msg})
        if journal:
            open(journal, "w").write("{}")
        return rec.result()
    n = dict(zip(["box-I", "solve-I", "box-B", "solve-B"], EXAMPLES[tier]))[job["name"]]
    strat = heavy_box(tier) if job["name"].startswith("box") else solve_case(tier)
    drive(strat, check, rec, shard_seed(seed, shard, 51 + ["box-I", "solve-I", "box-B", "solve-B"].index(job["name"])), n, shrink_budget_s=60)
    return rec.result()


def replay(case):
    return check(case)
