"""
C13 — the solution set does not depend on how the model is written down (metamorphic; DESIGN.md 4).

Case: {"model": {"kind": "random", "problem": P} | {"kind": "shipped", "name": ..., "args": [...]},
       "rewrite": {"r": "R1".."R7", ...drawn data...}, "config": cfg, "op": ["iter"] | ["min", v] | ["max", v]}
No reference solver: the original and the rewritten model are both solved by nucs and compared.
"""

from collections import Counter

from hypothesis import strategies as st

from vlib import gen, nx, solve
from vlib.props.solverlevel import cfg_tag, problem_tags
from vlib.run import EngineError, Verdict, engine

TRANSLATABLE = {"affine_eq", "affine_geq", "affine_leq", "alldifferent", "lexicographic_leq", "max_eq", "max_leq", "min_eq", "min_geq", "relation", "exactly_eq", "gcc", "dummy"}


def shipped_problem(name, args):
    if name == "queens":
        from nucs.examples.queens.queens_problem import QueensProblem

        return QueensProblem(*args)
    if name == "latin_square":
        from nucs.problems.latin_square_problem import LatinSquareProblem

        return LatinSquareProblem(*args)
    if name == "latin_square_rc":
        from nucs.problems.latin_square_problem import LatinSquareRCProblem

        return LatinSquareRCProblem(*args)
    if name == "magic_sequence":
        from nucs.examples.magic_sequence.magic_sequence_problem import MagicSequenceProblem

        return MagicSequenceProblem(*args)
    if name == "magic_square":
        from nucs.examples.magic_square.magic_square_problem import MagicSquareProblem

        return MagicSquareProblem(*args)
    if name == "schur":
        from nucs.examples.schur_lemma.schur_lemma_problem import SchurLemmaProblem

        return SchurLemmaProblem(*args)
    if name == "knapsack":
        from nucs.examples.knapsack.knapsack_problem import KnapsackProblem

        return KnapsackProblem(*args)
    if name == "circuit":
        from nucs.problems.circuit_problem import CircuitProblem

        return CircuitProblem(*args)
    if name == "golomb":
        from nucs.examples.golomb.golomb_problem import GolombProblem

        return GolombProblem(*args)
    raise ValueError(name)


def case_of_problem(pb):
    """JSON problem case of a nucs Problem object (before init(): the posting order is the model's)."""
    return {
        "shr": [[int(a), int(b)] for a, b in pb.shr_domains_lst],
        "idx": [int(i) for i in pb.dom_indices_lst],
        "off": [int(o) for o in pb.dom_offsets_lst],
        "props": [{"type": nx.ALG_NAME[int(a)], "vars": [int(v) for v in vs], "params": [int(x) for x in ps]} for vs, a, ps in pb.propagators],
    }


def model_case(model):
    if model["kind"] == "random":
        return model["problem"]
    return case_of_problem(engine(shipped_problem, model["name"], model["args"]))


# ----------------------------------------------------------------------------------------------
# rewrites: each returns (new problem case, function mapping a solution vector of the new model back)
# ----------------------------------------------------------------------------------------------
def r1_unshare(pc, rw):
    nv = len(pc["idx"])
    shr = [[pc["shr"][pc["idx"][v]][0] + pc["off"][v], pc["shr"][pc["idx"][v]][1] + pc["off"][v]] for v in range(nv)]
    props = [dict(p) for p in pc["props"]]
    first = {}
    for v in range(nv):
        d = pc["idx"][v]
        if d in first:
            u = first[d]
            # v - u = off_v - off_u
            props.append({"type": "affine_eq", "vars": [v, u], "params": [1, -1, pc["off"][v] - pc["off"][u]]})
        else:
            first[d] = v
    # shared domains that no variable uses would be free decision domains of the original: they multiply the
    # solutions; the generators never produce them
    return {"shr": shr, "idx": list(range(nv)), "off": [0] * nv, "props": props}, (lambda s: s)


def r2_order(pc, rw):
    order = rw["order"]
    n = len(pc["props"])
    perm = sorted(range(n), key=lambda i: (order[i % len(order)] if order else 0, i)) if n else []
    new = dict(pc)
    new["props"] = [pc["props"][i] for i in perm]
    return new, (lambda s: s)


def r3_rename(pc, rw):
    nv = len(pc["idx"])
    key = rw["vperm"]
    vperm = sorted(range(nv), key=lambda i: (key[i % len(key)], i))  # new position j holds old variable vperm[j]
    pos = {old: j for j, old in enumerate(vperm)}
    nd = len(pc["shr"])
    dkey = rw["dperm"]
    dperm = sorted(range(nd), key=lambda i: (dkey[i % len(dkey)], i))
    dpos = {old: j for j, old in enumerate(dperm)}
    new = {
        "shr": [list(pc["shr"][old]) for old in dperm],
        "idx": [dpos[pc["idx"][old]] for old in vperm],
        "off": [pc["off"][old] for old in vperm],
        "props": [{"type": p["type"], "vars": [pos[v] for v in p["vars"]], "params": list(p["params"])} for p in pc["props"]],
    }
    return new, (lambda s: tuple(s[pos[v]] for v in range(nv)))


def r4_twice(pc, rw):
    new = dict(pc)
    props = list(pc["props"])
    if props:
        k = rw["which"] % len(props)
        at = rw["at"] % (len(props) + 1)
        props.insert(at, dict(props[k]))
    new["props"] = props
    return new, (lambda s: s)


def r5_true(pc, rw):
    nv = len(pc["idx"])
    vs = [v % nv for v in rw["vars"]] or [0]
    new = dict(pc)
    props = list(pc["props"])
    if rw["form"] == "dummy":
        extra = {"type": "dummy", "vars": vs, "params": []}
    else:
        cs = [(c % 5) - 2 for c in rw["coefs"]]
        cs = (cs * len(vs))[: len(vs)] if cs else [1] * len(vs)
        views = [[pc["shr"][pc["idx"][v]][0] + pc["off"][v], pc["shr"][pc["idx"][v]][1] + pc["off"][v]] for v in vs]
        smax = sum(max(c * lo, c * hi) for c, (lo, hi) in zip(cs, views))
        smin = sum(min(c * lo, c * hi) for c, (lo, hi) in zip(cs, views))
        if rw["form"] == "leq":
            extra = {"type": "affine_leq", "vars": vs, "params": cs + [smax + rw["slack"]]}
        else:
            extra = {"type": "affine_geq", "vars": vs, "params": cs + [smin - rw["slack"]]}
    props.insert(rw["at"] % (len(props) + 1), extra)
    new["props"] = props
    return new, (lambda s: s)


def translatable(pc):
    return all(p["type"] in TRANSLATABLE for p in pc["props"])


def r6_translate(pc, rw):
    t = rw["t"]
    new = {"shr": [[lo + t, hi + t] for lo, hi in pc["shr"]], "idx": list(pc["idx"]), "off": list(pc["off"]), "props": []}
    for p in pc["props"]:
        ty, pa = p["type"], list(p["params"])
        if ty.startswith("affine"):
            pa = pa[:-1] + [pa[-1] + t * sum(pa[:-1])]
        elif ty == "relation":
            pa = [x + t for x in pa]
        elif ty == "exactly_eq":
            pa = [pa[0] + t, pa[1]]
        elif ty == "gcc":
            pa = [pa[0] + t] + pa[1:]
        new["props"].append({"type": ty, "vars": list(p["vars"]), "params": pa})
    return new, (lambda s: tuple(x - t for x in s))


def r7_fresh(pc, rw):
    """k fresh variables with a one-value domain (added through the model-building API, see build_r7) and an always-true constraint on them."""
    k = 1 + rw["count"] % 2
    val = rw["value"]
    nv, nd = len(pc["idx"]), len(pc["shr"])
    new = dict(pc)
    new["shr"] = [list(d) for d in pc["shr"]] + [[val, val] for _ in range(k)]
    new["idx"] = list(pc["idx"]) + [nd + i for i in range(k)]
    new["off"] = list(pc["off"]) + [0] * k
    vs = [nv + i for i in range(k)]
    extra = {"type": "dummy", "vars": vs, "params": []} if rw["form"] == "dummy" else {"type": "affine_leq", "vars": vs, "params": [1] * k + [k * val + rw["slack"]]}
    new["props"] = list(pc["props"]) + [extra]
    return new, (lambda s: tuple(s[:nv]))


def build_r7(pc, new, rw):
    """The rewritten model built the way a user would: the original model, then add_variable() / add_variables(), then the constraint."""
    k = 1 + rw["count"] % 2
    val = rw["value"]
    pb = nx.build_problem(pc)
    if rw["how"] == "one":
        got = [pb.add_variable((val, val)) for _ in range(k)]
    else:
        start = pb.add_variables([(val, val)] * k)
        got = [start + i for i in range(k)]
    extra = new["props"][-1]
    pb.add_propagator((list(extra["vars"]), nx.ALG[extra["type"]], list(extra["params"])))
    return pb, got


REWRITES = {"R7": r7_fresh, "R1": r1_unshare, "R2": r2_order, "R3": r3_rename, "R4": r4_twice, "R5": r5_true, "R6": r6_translate}


def check(case):
    try:
        pc = model_case(case["model"])
    except EngineError as e:
        return Verdict(True, "", False, ["model-construction-aborted:" + e.bucket])
    cfg, op, rw = case["config"], tuple(case["op"]), case["rewrite"]
    tags = ["rewrite:" + rw["r"], "cfg:" + cfg_tag(cfg), "op:" + op[0], "model:" + (case["model"].get("name") or "random")]
    if case["model"]["kind"] == "random":
        tags += problem_tags(pc)
    if rw["r"] == "R6" and not translatable(pc):
        return Verdict(True, "", False, tags, excluded="not-translation-invariant")
    if (cfg["var"] == "max_regret" or cfg["dom"] == "min_cost") and rw["r"] in ("R1", "R3", "R6", "R7"):
        # cost tables are indexed by shared domain and value: these rewrites would need a rewritten table
        cfg = dict(cfg, var="first" if cfg["var"] == "max_regret" else cfg["var"], dom="min" if cfg["dom"] == "min_cost" else cfg["dom"])
        cfg.pop("costs", None)
    if cfg.get("decision") and rw["r"] in ("R1", "R3"):
        # the order of the decision domains names shared domains of the original model: these rewrites renumber them
        cfg = {k: v for k, v in cfg.items() if k != "decision"}
    new, back = REWRITES[rw["r"]](pc, rw)
    nv = len(pc["idx"])
    op2 = op
    if op[0] in ("min", "max"):
        v = op[1] % nv
        op = (op[0], v)
        op2 = op
        if rw["r"] == "R3":
            key = rw["vperm"]
            vperm = sorted(range(nv), key=lambda i: (key[i % len(key)], i))
            op2 = (op[0], vperm.index(v))
    a = solve.run(pc, cfg, op)
    if rw["r"] == "R7":
        try:
            pb7, got = engine(build_r7, pc, new, rw)
        except EngineError as e:
            return Verdict(False, "adding a fresh variable through the API raised %s" % e.bucket, True, tags)
        want = list(range(nv, len(new["idx"])))
        if got != want:
            return Verdict(False, "add_variable%s on a model with %d variables over %d shared domains returned the indices %s for the variables %s" % ("" if rw["how"] == "one" else "s", nv, len(pc["shr"]), got, want), True, tags)
        b = solve.run(new, cfg, op2, pb=pb7)
    else:
        b = solve.run(new, cfg, op2)
    if a.kind == "slow" or b.kind == "slow":
        return Verdict(True, "", False, tags + ["inconclusive:slow"])
    if a.kind != "ok":
        return Verdict(True, "", False, tags + ["original-aborted:" + a.kind])
    if b.kind != "ok":
        return Verdict(False, "the original model is solved but the rewritten one (%s) is not (%s: %s)" % (rw["r"], b.kind, b.msg), True, tags)
    changed = new != pc
    if op[0] in ("min", "max"):
        va = None if a.value is None else a.value[op[1]]
        vb = None if b.value is None else back(b.value)[op[1]]
        nt = changed and va is not None
        if va != vb:
            return Verdict(False, "%simize(%d): original model gives %s, after rewrite %s %s gives %s [%s]" % (op[0], op[1], va, rw["r"], {k: v for k, v in rw.items() if k != "r"}, vb, cfg_tag(cfg)), nt, tags)
        return Verdict(True, "", nt, tags)
    sa = Counter(a.solutions)
    sb = Counter(back(s) for s in b.solutions)
    npts = 1
    for lo, hi in pc["shr"]:
        npts *= hi - lo + 1
    nt = changed and 0 < len(a.solutions) < npts
    if sa != sb:
        return Verdict(
            False,
            "solution sets differ after rewrite %s %s: %d vs %d solutions, only original %s, only rewritten %s [%s]"
            % (rw["r"], {k: v for k, v in rw.items() if k != "r"}, sum(sa.values()), sum(sb.values()), [list(x) for x in sorted((sa - sb).elements())[:3]], [list(x) for x in sorted((sb - sa).elements())[:3]], cfg_tag(cfg)),
            nt,
            tags,
        )
    return Verdict(True, "", nt, tags)


@st.composite
def rewrite(draw):
    r = draw(st.sampled_from(["R1", "R2", "R3", "R4", "R5", "R6", "R7"]))
    rw = {"r": r}
    if r == "R7":
        rw["count"] = draw(st.integers(0, 1))
        rw["value"] = draw(st.integers(-3, 7))
        rw["form"] = draw(st.sampled_from(["dummy", "leq"]))
        rw["slack"] = draw(st.integers(0, 2))
        rw["how"] = draw(st.sampled_from(["one", "many"]))
    if r == "R2":
        rw["order"] = draw(st.lists(st.integers(0, 9), min_size=1, max_size=8))
    elif r == "R3":
        rw["vperm"] = draw(st.lists(st.integers(0, 9), min_size=1, max_size=12))
        rw["dperm"] = draw(st.lists(st.integers(0, 9), min_size=1, max_size=12))
    elif r == "R4":
        rw["which"] = draw(st.integers(0, 20))
        rw["at"] = draw(st.integers(0, 20))
    elif r == "R5":
        rw["form"] = draw(st.sampled_from(["dummy", "leq", "geq"]))
        rw["vars"] = draw(st.lists(st.integers(0, 30), min_size=1, max_size=4))
        rw["coefs"] = draw(st.lists(st.integers(0, 4), min_size=1, max_size=4))
        rw["slack"] = draw(st.integers(0, 2))
        rw["at"] = draw(st.integers(0, 20))
    elif r == "R6":
        rw["t"] = draw(st.sampled_from([-7, -3, -1, 1, 2, 5, 11]))
    return rw


SHIPPED_QUICK = [
    ("queens", [4]), ("queens", [5]), ("queens", [6]), ("latin_square", [[0, 1, 2]]), ("latin_square_rc", [3]), ("magic_sequence", [4]), ("magic_sequence", [5]), ("magic_sequence", [7]),
    ("magic_square", [3, True]), ("magic_square", [3, False]), ("schur", [4, True]), ("schur", [5, False]), ("schur", [6, True]),
    ("knapsack", [[3, 4, 5, 2], [2, 3, 4, 1], 6]), ("circuit", [4]), ("circuit", [5]), ("golomb", [4, True]), ("golomb", [5, False]),
]
SHIPPED_THOROUGH = SHIPPED_QUICK + [
    ("queens", [7]), ("queens", [8]), ("latin_square", [[0, 1, 2, 3]]), ("magic_sequence", [9]), ("magic_sequence", [12]), ("schur", [8, True]), ("schur", [9, False]),
    ("knapsack", [[5, 7, 3, 9, 4, 6], [3, 5, 2, 6, 3, 4], 12]), ("circuit", [6]), ("golomb", [6, True]), ("magic_square", [3, True]),
]


@st.composite
def c13_case(draw, tier, shipped=False):
    big = tier != "quick"
    if shipped:
        name, args = draw(st.sampled_from(SHIPPED_THOROUGH if big else SHIPPED_QUICK))
        model = {"kind": "shipped", "name": name, "args": args}
        pc = None
        nv = 30
        cfg = {"cons": draw(st.sampled_from(["bc", "bc", "shaving"])), "var": draw(st.sampled_from(["first", "smallest", "greatest"])), "dom": draw(st.sampled_from(["min", "max", "split_low", "mid"]))}
        if name in ("knapsack", "golomb"):
            op = ["max", len(args[0])] if name == "knapsack" else ["min", args[0] - 2]
        else:
            op = ["iter"]
    else:
        pc = draw(gen.problem_case(max_shr=6 if not big else 9, max_w=4, max_props=4 if not big else 6, max_arity=4 if not big else 5, max_points=4000 if not big else 60000))
        model = {"kind": "random", "problem": pc}
        nv = len(pc["idx"])
        cfg = draw(gen.config(pc))
        op = draw(st.sampled_from([["iter"], ["iter"], ["min", draw(st.integers(0, nv - 1))], ["max", draw(st.integers(0, nv - 1))]]))
    return {"model": model, "rewrite": draw(rewrite()), "config": cfg, "op": op}


META = {
    "level": "exploration",
    "rule": "cases = model (generated problem larger than brute force would allow, or a shipped model: queens, latin square (+RC), magic sequence, magic square, Schur, knapsack, circuit, Golomb) x rewrite "
    "(R1 un-share domains + equalities, R2 permute posting order, R3 rename variables and shared domains, R4 post a constraint twice, R5 add an always-true constraint, R6 translate a translation-invariant model, R7 add fresh one-value variables through add_variable()/add_variables() with an always-true constraint on them) "
    "x configuration x operation; oracle = metamorphic equality of the solution multiset (mapped back) and of the optimum, no reference solver; non-trivial = the rewrite changed the model and it has >= 1 solution and >= 1 non-solution "
    "(optimisation: feasible); distinct by SHA-1 of the canonical case",
}
REPLAY_MODE = "I"
EXAMPLES = {"quick": (1200, 500, 80), "thorough": (12000, 5000, 800)}


def jobs(tier):
    return [
        {"name": "hyp-I", "mode": "I", "shards": 10},
        {"name": "hyp-J", "mode": "J", "shards": 4},
        {"name": "shipped-J", "mode": "J", "shards": 2, "case_timeout": 300, "slow_ok": True},
    ]


def run(job, shard, nshards, seed, tier):
    from vlib.run import Recorder, drive, shard_seed

    rec = Recorder()
    n_i, n_j, n_s = EXAMPLES[tier]
    if job["name"] == "shipped-J":
        drive(c13_case(tier, shipped=True), check, rec, shard_seed(seed, shard, 33), n_s, shrink_budget_s=60)
    else:
        drive(c13_case(tier), check, rec, shard_seed(seed, shard, 31 if job["mode"] == "I" else 32), n_i if job["mode"] == "I" else n_j, shrink_budget_s=90)
    return rec.result()


def replay(case):
    return check(case)
