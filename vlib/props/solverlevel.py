"""
Solver-level properties C01, C02, C03, C04 (DESIGN.md 4): the real solver on generated problems and
configurations, against the reference semantics of vlib/ref.py.

Cases (JSON):
  C01: {"problem": P, "config": cfg, "op": [...], "order": perm|None}
  C02: {"problem": P, "configs": [cfg, ...], "order": perm|None}
  C03: {"problem": P, "config": cfg, "var": v, "dir": "min"|"max", "mp": null | {"k":..,"split_var":..,"schedule":[..]}}
  C04: {"problem": P, "config": cfg, "op": [...]}
"""

from collections import Counter

from hypothesis import strategies as st

from vlib import gen, nx, solve
from vlib.ref import brute_force, shr_box_size, violated_constraints
from vlib.run import BudgetExceeded, EngineError, Verdict, engine

INTERPRETED = nx.INTERPRETED


class _Tag(str):
    """Configuration label: the full text (with the decision order) in messages, the short form in histogram keys."""


def cfg_tag(cfg):
    t = _Tag("%s/%s/%s%s" % (cfg["cons"], cfg["var"], cfg["dom"], "/decision=%s" % cfg["decision"] if cfg.get("decision") else ""))
    return t


def problem_tags(pc):
    tags = []
    types = sorted({p["type"] for p in pc["props"]})
    for t in types:
        tags.append("type:" + t)
    if len(set(pc["idx"])) < len(pc["idx"]):
        tags.append("shared-domain")
    if any(o != 0 for o in pc["off"]):
        tags.append("offsets")
    for p in pc["props"]:
        doms = [pc["idx"][v] for v in p["vars"]]
        if len(set(doms)) < len(doms):
            tags.append("repeated-domain-in-scope")
            break
    if any(lo < 0 for lo, _ in pc["shr"]):
        tags.append("negative-bounds")
    if any(lo == hi for lo, hi in pc["shr"]):
        tags.append("singleton-domain")
    if any(abs(lo) > 100 or abs(hi) > 100 for lo, hi in pc["shr"]):
        tags.append("far-values")
    tags.append("nprops:%d" % len(pc["props"]))
    return tags


# ----------------------------------------------------------------------------------------------
# C01
# ----------------------------------------------------------------------------------------------
def _mp_run(case, cfg, mp, op, order=None):
    """Runs the real MultiprocessingSolver over split() with the in-process transport.  Returns (solutions, value)."""
    from vlib import mpfake

    solvers = engine(mpfake.split_solvers, case, mp["k"], mp["split_var"], cfg, order)
    with mpfake.patched(len(solvers), mp.get("schedule", []), mp.get("late")) as t:
        ms = mpfake.MultiprocessingSolver(solvers, log_level="CRITICAL")
        if op[0] in ("min", "max"):
            r = engine(ms.minimize if op[0] == "min" else ms.maximize, op[1])
            return [], (None if r is None else nx.vec(r)), t
        sols = [nx.vec(s) for s in engine(lambda: list(ms.solve()))]
        return sols, None, t


def check_c01(case):
    pc, cfg, op = case["problem"], case["config"], tuple(case["op"])
    tags = ["cfg:" + cfg_tag(cfg), "op:" + op[0]] + problem_tags(pc)
    vectors = []
    stats = None
    if case.get("mp"):
        tags.append("mp")
        try:
            sols, value, _ = _mp_run(pc, cfg, case["mp"], op, case.get("order"))
        except (EngineError, BudgetExceeded) as e:
            return Verdict(True, "", False, tags + ["aborted:" + getattr(e, "bucket", "budget")])
        except BaseException as e:  # FakeDeadlock etc: not a C01 matter
            if type(e).__name__ != "FakeDeadlock":
                raise
            return Verdict(True, "", False, tags + ["aborted:deadlock"])
        vectors = sols + ([value] if value is not None else [])
    else:
        out = solve.run(pc, cfg, op, order=case.get("order"))
        if out.kind != "ok":
            # nothing was reported to the caller by the aborted call beyond out.solutions
            tags.append("aborted:" + out.kind)
        vectors = list(out.solutions) + ([out.value] if out.value is not None else [])
        stats = out.stats
    bad = None
    for v in vectors:
        why = violated_constraints(pc, v)
        if why:
            bad = (v, why)
            break
    nt = bool(pc["props"]) and bool(vectors)
    if nt and stats is not None:
        nt = stats["PROPAGATOR_INCONSISTENCY_NB"] > 0 or stats["SOLVER_BACKTRACK_NB"] > 0 or len(vectors) < shr_box_size(pc)
    if bad:
        return Verdict(False, "reported assignment %s is not a solution: %s [%s %s]" % (list(bad[0]), "; ".join(bad[1]), cfg_tag(cfg), list(op)), nt, tags)
    return Verdict(True, "", nt, tags)


@st.composite
def c01_case(draw, tier):
    big = tier != "quick"
    pc = draw(gen.problem_case(max_shr=6 if not big else 8, max_w=4 if not big else 5, max_props=4 if not big else 5, max_arity=4 if not big else 5, max_points=6000 if not big else 60000))
    cfg = draw(gen.config(pc))
    nv = len(pc["idx"])
    kind = draw(st.sampled_from(["find_all", "solve_all", "iter", "prefix", "min", "max", "mp_enum", "mp_min", "mp_max", "again", "after"]))
    case = {"problem": pc, "config": cfg}
    if draw(st.integers(0, 2)) == 0 and len(pc["props"]) > 1:
        case["order"] = list(draw(st.permutations(list(range(len(pc["props"]))))))
    if kind == "prefix":
        case["op"] = ["prefix", draw(st.integers(1, 4))]
    elif kind in ("min", "max"):
        case["op"] = [kind, draw(st.integers(0, nv - 1))]
    elif kind == "after":
        # any complete search, then another one on the same solver object; the vectors of the second are judged
        def one():
            k2 = draw(st.sampled_from(["find_all", "iter", "solve_all", "min", "max"]))
            return [k2, draw(st.integers(0, nv - 1))] if k2 in ("min", "max") else [k2]

        case["op"] = ["after", one(), one()]
    elif kind.startswith("mp_"):
        v = draw(st.integers(0, nv - 1))
        d = pc["shr"][pc["idx"][v]]
        k = draw(st.integers(1, min(4, d[1] - d[0] + 2)))
        case["mp"] = {"k": k, "split_var": v, "schedule": draw(st.lists(st.integers(0, 3), max_size=12))}
        case["op"] = ["find_all"] if kind == "mp_enum" else [kind[3:], draw(st.integers(0, nv - 1))]
    else:
        case["op"] = [kind]
    return case


# ----------------------------------------------------------------------------------------------
# C02
# ----------------------------------------------------------------------------------------------
def check_c02(case):
    pc = case["problem"]
    tags = problem_tags(pc)
    sols, und = brute_force(pc)
    if und:
        return Verdict(True, "", False, tags, excluded="undecided-relation")
    expect = Counter(v for _, v in sols)
    npoints = shr_box_size(pc)
    nt_any = False
    for ci, cfg in enumerate(case["configs"]):
        tags.append("cfg:" + cfg_tag(cfg))
        pre = (case.get("reuse") or {}).get(str(ci))
        if pre:
            # the enumeration is the second complete search on the same solver object
            tags.append("after:" + pre[0])
        out = solve.run(pc, cfg, ("after", pre, ["iter"]) if pre else ("iter",), order=case.get("order"))
        if out.kind == "slow":
            tags.append("inconclusive:slow")
            continue
        if out.kind != "ok":
            return Verdict(False, "enumeration did not complete (%s: %s) [%s]" % (out.kind, out.msg, cfg_tag(cfg)), 0 < len(sols) < npoints, tags)
        got = Counter(out.solutions)
        if got != expect:
            extra = sorted((got - expect).elements())[:3]
            missing = sorted((expect - got).elements())[:3]
            dup = sorted(v for v, c in got.items() if c > 1 and expect.get(v, 0) == 1)[:3]
            return Verdict(
                False,
                "enumeration%s differs from brute force (%d vs %d solutions): extra %s missing %s duplicated %s [%s order=%s]"
                % (" after %s on the same solver object" % pre if pre else "", sum(got.values()), sum(expect.values()), [list(x) for x in extra], [list(x) for x in missing], [list(x) for x in dup], cfg_tag(cfg), case.get("order")),
                True,
                tags,
            )
        if out.resurrected:
            return Verdict(False, "a further next() after exhaustion yielded %d more solutions [%s]" % (out.resurrected, cfg_tag(cfg)), True, tags)
        if out.stats and out.stats["SOLVER_CHOICE_NB"] > 0 and 0 < len(sols) < npoints:
            nt_any = True
    return Verdict(True, "", nt_any, tags)


@st.composite
def c02_case(draw, tier):
    big = tier != "quick"
    pc = draw(gen.problem_case(max_shr=5, max_w=3 if not big else 4, max_props=3 if not big else 4, max_arity=4, max_points=1500 if not big else 8000))
    costs = draw(gen.cost_table(pc)) if gen.cost_heuristics_allowed(pc) else None
    allc = gen.all_configs(pc, costs)
    if big:
        cfgs = allc
    else:
        k = draw(st.integers(2, 5))
        cfgs = [draw(st.sampled_from(allc)) for _ in range(k)]
    case = {"problem": pc, "configs": cfgs}
    if len(pc["props"]) > 1 and draw(st.integers(0, 1)):
        case["order"] = list(draw(st.permutations(list(range(len(pc["props"]))))))
    # for some configurations the enumeration is not the first search of its solver object: a complete enumeration or an
    # optimisation was run on it before ("exactly once and then stops" has to hold for every enumeration, not only the first)
    reuse = {}
    nv = len(pc["idx"])
    for ci in range(len(cfgs)):
        if draw(st.integers(0, 4 if big else 2)) == 0:
            k = draw(st.sampled_from(["find_all", "iter", "solve_all", "min", "max"]))
            reuse[str(ci)] = [k, draw(st.integers(0, nv - 1))] if k in ("min", "max") else [k]
    if reuse:
        case["reuse"] = reuse
    return case


# ----------------------------------------------------------------------------------------------
# C03
# ----------------------------------------------------------------------------------------------
def check_c03(case):
    pc, cfg, var, direction = case["problem"], case["config"], case["var"], case["dir"]
    tags = ["cfg:" + cfg_tag(cfg), "dir:" + direction] + problem_tags(pc)
    sols, und = brute_force(pc)
    if und:
        return Verdict(True, "", False, tags, excluded="undecided-relation")
    vals = sorted({v[var] for _, v in sols})
    best = None if not vals else (vals[0] if direction == "min" else vals[-1])
    nt = (not sols) or len(vals) >= 2
    hist = ""
    # how the objective is watched (class tag)
    watchers = [p["type"] for p in pc["props"] if var in p["vars"] or any(pc["idx"][u] == pc["idx"][var] for u in p["vars"])]
    tags.append("objective-in-%s-scopes" % ("no" if not watchers else "one" if len(watchers) == 1 else "several"))
    if pc["off"][var] != 0 or pc["idx"].count(pc["idx"][var]) > 1:
        tags.append("objective-shares-domain-or-offset")
    tags.append("feasible" if sols else "infeasible")
    if case.get("mp"):
        tags.append("mp")
        try:
            _, value, _ = _mp_run(pc, cfg, case["mp"], (direction, var), case.get("order"))
        except EngineError as e:
            return Verdict(False, "distributed optimisation raised %s" % e.bucket, nt, tags)
        except BudgetExceeded as e:
            return Verdict(False, "distributed optimisation does not terminate: %s" % e, nt, tags)
        except BaseException as e:
            if type(e).__name__ != "FakeDeadlock":
                raise
            return Verdict(False, "distributed optimisation waits for a message no worker will send", nt, tags)
    else:
        pre = case.get("pre")
        if pre:
            # the optimisation is not the first search of its solver object
            tags.append("after:" + pre[0] + ("-same" if list(pre) == [direction, var] else ""))
        out = solve.run(pc, cfg, ("after", pre, [direction, var]) if pre else (direction, var), order=case.get("order"))
        if out.kind == "slow":
            return Verdict(True, "", False, tags + ["inconclusive:slow"])
        if out.kind != "ok":
            return Verdict(False, "optimisation%s did not complete (%s: %s)" % (" after %s on the same solver object" % pre if pre else "", out.kind, out.msg), nt, tags)
        value = out.value
        if pre:
            hist = " [after %s on the same solver object]" % (pre,)
    if value is None:
        if sols:
            return Verdict(False, "%simize(%d) returned None but the problem has %d solutions (optimum %d)" % (direction, var, len(sols), best) + hist, nt, tags)
        return Verdict(True, "", nt, tags)
    if not sols:
        return Verdict(False, "%simize(%d) returned %s but the problem has no solution" % (direction, var, list(value)) + hist, nt, tags)
    why = violated_constraints(pc, value)
    if why:
        return Verdict(False, "%simize(%d) returned %s which is not a solution: %s" % (direction, var, list(value), "; ".join(why)) + hist, nt, tags)
    if value[var] != best:
        return Verdict(False, "%simize(%d) returned value %d, the optimum over all %d solutions is %d" % (direction, var, value[var], len(sols), best) + hist, nt, tags)
    return Verdict(True, "", nt, tags)


@st.composite
def c03_case(draw, tier):
    big = tier != "quick"
    pc = draw(gen.problem_case(max_shr=5, max_w=3 if not big else 5, max_props=3 if not big else 4, max_arity=4, max_points=1500 if not big else 8000, min_props=0))
    cfg = draw(gen.config(pc))
    nv = len(pc["idx"])
    # the pairing objective/constraints is a drawn class, not left to chance
    in_scope = sorted({v for p in pc["props"] for v in p["vars"]})
    free = [v for v in range(nv) if v not in in_scope]
    pools = [list(range(nv))] + ([in_scope] if in_scope else []) + ([free] if free else [])
    var = draw(st.sampled_from(draw(st.sampled_from(pools))))
    case = {"problem": pc, "config": cfg, "var": var, "dir": draw(st.sampled_from(["min", "max"]))}
    if draw(st.integers(0, 3)) == 0:
        v = draw(st.integers(0, nv - 1))
        d = pc["shr"][pc["idx"][v]]
        case["mp"] = {"k": draw(st.integers(1, min(4, d[1] - d[0] + 2))), "split_var": v, "schedule": draw(st.lists(st.integers(0, 3), max_size=10))}
    elif draw(st.integers(0, 3)) == 0:
        # an earlier complete search on the same solver object: the same optimisation, another one, or an enumeration
        k = draw(st.sampled_from(["same", "same", "min", "max", "find_all", "iter"]))
        case["pre"] = [case["dir"], var] if k == "same" else [k, draw(st.integers(0, nv - 1))] if k in ("min", "max") else [k]
    return case


# ----------------------------------------------------------------------------------------------
# C04
# ----------------------------------------------------------------------------------------------
class _VarHeuristicWatcher:
    """Variable heuristics must return a non-instantiated decision domain whenever one exists."""

    def __init__(self):
        self.bad = None

    def on_var_choice(self, i, r, decision_domains, shr_domains_stack, stacks_top):
        top = int(stacks_top[0])
        open_ = [int(d) for d in decision_domains if shr_domains_stack[top, d, 0] < shr_domains_stack[top, d, 1]]
        if open_ and (r not in open_) and self.bad is None:
            self.bad = "variable heuristic %d returned %d; non-instantiated decision domains are %s" % (i, r, open_)


def check_c04(case):
    pc, cfg, op = case["problem"], case["config"], tuple(case["op"])
    tags = ["cfg:" + cfg_tag(cfg), "op:" + op[0]] + problem_tags(pc)
    w = _VarHeuristicWatcher()
    out = solve.run(pc, cfg, op, order=case.get("order"), detail=True, observers=[w])
    nt = False
    if out.session is not None:
        n = out.session.n
        nt = (len(pc["props"]) >= 2 and n["filter"] > len(pc["props"])) or n["backtrack_ok"] > 0
        tags.append("filters:%s" % ("0" if n["filter"] == 0 else "<10" if n["filter"] < 10 else "<100" if n["filter"] < 100 else ">=100"))
    if out.kind == "budget":
        return Verdict(False, "progress budget exceeded: %s [%s %s]" % (out.msg, cfg_tag(cfg), list(op)), True, tags)
    if out.kind == "slow":
        return Verdict(True, "", False, tags + ["inconclusive:slow"])
    if w.bad:
        return Verdict(False, w.bad + " [%s]" % cfg_tag(cfg), True, tags)
    if out.kind == "error":
        tags.append("aborted:" + out.msg)
    return Verdict(True, "", nt, tags)


@st.composite
def c04_case(draw, tier):
    big = tier != "quick"
    # weights on the structures named in the property
    profiles = ("general", "perm", "perm", "nonneg", "bool", "general")
    pc = draw(gen.problem_case(max_shr=6, max_w=4, max_props=4 if not big else 6, max_arity=4 if not big else 5, max_points=4000 if not big else 40000, profiles=profiles))
    if pc["props"] and draw(st.integers(0, 3)) == 0:
        # the same constraint posted twice (two constraints woken by the same events on common variables)
        pc["props"].append(dict(draw(st.sampled_from(pc["props"]))))
    cfg = draw(gen.config(pc))
    nv = len(pc["idx"])
    kind = draw(st.sampled_from(["iter", "iter", "prefix", "min", "max"]))
    if kind == "prefix":
        op = ["prefix", 1]
    elif kind in ("min", "max"):
        op = [kind, draw(st.integers(0, nv - 1))]
    else:
        op = ["iter"]
    return {"problem": pc, "config": cfg, "op": op}


def check_c04_call(case):
    """One filtering call on an in-contract box must return within the per-call line budget (Hall-interval pointer chasing)."""
    from vlib import interpose

    tags = ["call:" + case["type"], "n:%d" % min(len(case["box"]), 12)]
    nt = len(case["box"]) >= 3
    try:
        interpose.with_alarm(10, engine, nx.compute_domains, case["type"], case["box"], case["params"])
        return Verdict(True, "", nt, tags)
    except EngineError as e:
        return Verdict(True, "", False, tags + ["aborted:" + e.bucket])
    except interpose.HangSuspect:
        pass
    try:
        interpose.with_alarm(300, interpose.with_line_budget, engine, nx.compute_domains, case["type"], case["box"], case["params"])
    except BudgetExceeded as e:
        return Verdict(False, "%s%s on %s does not return: %s" % (case["type"], case["params"], case["box"], e), True, tags)
    except EngineError as e:
        if isinstance(e.exc, BudgetExceeded):
            return Verdict(False, "%s%s on %s does not return: %s" % (case["type"], case["params"], case["box"], e.exc), True, tags)
        return Verdict(True, "", False, tags + ["aborted:" + e.bucket])
    except interpose.HangSuspect:
        return Verdict(True, "", False, tags + ["inconclusive:slow"])
    return Verdict(True, "", False, tags + ["inconclusive:slow-once"])


CHECKS = {"C01": check_c01, "C02": check_c02, "C03": check_c03, "C04": check_c04}
STRATS = {"C01": c01_case, "C02": c02_case, "C03": c03_case, "C04": c04_case}
EXAMPLES = {
    "C01": {"quick": (1500, 800), "thorough": (12000, 5000)},
    "C02": {"quick": (1000, 500), "thorough": (3000, 2500)},
    "C03": {"quick": (2000, 800), "thorough": (16000, 6000)},
    "C04": {"quick": (1500, 0), "thorough": (15000, 0)},
}

RULES = {
    "C01": "cases = generated problem (all constraint types mixed, shared domains, offsets, repeated variables/domains in a scope) x configuration x API path "
    "(find_all, solve_all, iterator, prefix of the iterator, minimize, maximize, MultiprocessingSolver over split() with a drawn delivery schedule); "
    "non-trivial = >= 1 constraint, >= 1 assignment reported, and the run saw an inconsistency/backtrack or reported fewer assignments than the box has points; "
    "distinct by SHA-1 of the canonical JSON of (problem, configuration, API path)",
    "C02": "cases = generated problem (box small enough for exact brute force) x a list of configurations (thorough: all 40) x posting order; "
    "non-trivial = 0 < #solutions < #points and the run made >= 1 branching decision; distinct by SHA-1 of the canonical case",
    "C03": "cases = generated problem x objective variable (drawn from: any, in some scope, in no scope) x direction x configuration (x split/schedule for the distributed variant); "
    "non-trivial = the problem is infeasible or its solutions take >= 2 distinct objective values; distinct by SHA-1 of the canonical case",
    "C04": "cases = generated problem (weights on permutation/circuit models with duplicated sub-cycle constraints, repeated shared domains, duplicated constraints, tied cost tables) x configuration x operation "
    "(first solution, full enumeration, optimisation), plus single filtering calls on boxes that stress the Hall-interval pointer structures; oracle = deterministic progress budgets: <= (S+1)*P+P propagator executions per pass, <= #points branching decisions per search, "
    "line budget per propagator call when the wall-clock trigger fires; non-trivial = pass with >= 2 propagators re-executed, or a search with >= 1 backtrack",
}


def jobs(prop, tier):
    js = [{"name": "hyp-I", "mode": "I", "shards": 16 if prop != "C04" else 13}]
    if prop == "C04":
        js.append({"name": "calls-I", "mode": "I", "shards": 3, "case_timeout": 400})
        js.append({"name": "gcc-zero-exh-I", "mode": "I", "shards": 8, "case_timeout": 400})
    if EXAMPLES[prop][tier][1] > 0:
        js.append({"name": "hyp-J", "mode": "J", "shards": 8, "timeout": 1500})
    return js


def run(prop, job, shard, nshards, seed, tier):
    from vlib.run import Recorder, drive, shard_seed

    rec = Recorder()
    if job["name"] == "gcc-zero-exh-I":
        # exhaustive: gcc with 0/1 upper capacities (at least one zero) over every box of 4 (thorough: 5) variables on 4 values
        from itertools import product

        from vlib.run import journal

        jr = journal()
        nvar = 4 if tier == "quick" else 5
        ivs = [[a, b] for a in range(4) for b in range(a, 4)]
        k = 0
        nt = 0
        for ubs in product((0, 1), repeat=4):
            if all(ubs):
                continue
            for box in product(ivs, repeat=nvar):
                k += 1
                if k % nshards != shard:
                    continue
                case = {"type": "gcc", "params": [0, 0, 0, 0, 0] + list(ubs), "box": [list(b) for b in box]}
                jr.begin(case)
                v = check_c04_call(case)
                rec.evaluations += 1
                nt += 1
                if not v.ok and len(rec.failures) < 2:
                    rec.failures.append({"case": case, "msg": v.msg})
                    break
            if rec.failures:
                break
        jr.end()
        rec.tag("gcc-zero-capacity-exhaustive", rec.evaluations)
        res = rec.result()
        res["exhaustive_nontrivial"] = nt
        return res
    if job["name"] == "calls-I":
        from vlib.props.c16 import heavy_box

        drive(heavy_box(tier), check_c04_call, rec, shard_seed(seed, shard, 9), 20000 if tier == "quick" else 150000, shrink_budget_s=60)
        return rec.result()
    n_i, n_j = EXAMPLES[prop][tier]
    n = n_i if job["mode"] == "I" else n_j
    drive(STRATS[prop](tier), CHECKS[prop], rec, shard_seed(seed, shard, 1 if job["mode"] == "I" else 2), n, shrink_budget_s=90)
    return rec.result()


def replay(prop, case):
    if prop == "C04" and "type" in case:
        return check_c04_call(case)
    return CHECKS[prop](case)
