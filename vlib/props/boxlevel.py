"""
Propagator-level properties C05, C06, C07, C14: one filtering call on a generated box against the
brute-force solution set of that box (DESIGN.md 4).

Case: {"type": name, "params": [...], "box": [[lo,hi],...]}
"""

from itertools import product

from hypothesis import strategies as st

from vlib import gen, nx
from vlib.catalogue import (
    ALL_TYPES,
    ENTAIL_TYPES,
    EXACT_BC_TYPES,
    TYPES,
    box_points,
    box_size,
    hull,
    in_contract,
)
from vlib.ref import affine_eq_one_round
from vlib.run import EngineError, Verdict, engine

INC, CONS, ENT = 0, 1, 2


def _is_zero_cap_gcc(case):
    if case["type"] != "gcc":
        return False
    p = case["params"]
    m = (len(p) - 1) // 2
    return any(u == 0 for u in p[1 + m :])


def call(case):
    return engine(nx.compute_domains, case["type"], case["box"], case["params"])


def solutions(case):
    rel = TYPES[case["type"]].rel
    p = list(case["params"])
    sols, und = [], 0
    for t in box_points(case["box"]):
        r = rel(list(t), p)
        if r:
            sols.append(t)
        elif r is None:
            und += 1
    return sols, und


def is_point(box):
    return all(lo == hi for lo, hi in box)


def within(out, box):
    return all(b[0] <= o[0] and o[1] <= b[1] for o, b in zip(out, box))


# ----------------------------------------------------------------------------------------------
# scopes around 2**15 and 2**16 variables (the documented limit is "the number of variables is an unsigned 16-bits integer"):
# boxes whose solutions are known without enumeration
BIG_SIZES = (32767, 32768, 33001, 40000, 65535)


def big_cases():
    return [{"big": kind, "n": n} for kind in ("alldifferent", "gcc", "no_sub_cycle") for n in BIG_SIZES]


def check_big(case):
    kind, n = case["big"], case["n"]
    tags = ["type:" + kind, "big-scope"]
    if kind in ("alldifferent", "gcc"):
        # pairwise disjoint domains {3i, 3i+1}: every tuple of the box is a solution
        box = [[3 * i, 3 * i + 1] for i in range(n)]
        params = [] if kind == "alldifferent" else [0] + [0] * (3 * n) + [1] * (3 * n)
        keep = None
    else:
        # vertex 0 goes to g; the circuit 0 -> g -> every other vertex in increasing order -> 0 is in the box
        g = n - 1
        box = [[0, n - 1] for _ in range(n)]
        box[0] = [g, g]
        params = []
        others = [v for v in range(1, n) if v != g]
        keep = [0] * n
        keep[0] = g
        prev = g
        for v in others:
            keep[prev] = v
            prev = v
        keep[prev] = 0
    try:
        status, out = engine(nx.compute_domains, kind, box, params)
    except EngineError as e:
        return Verdict(False, "%s over %d variables: filtering call raised %s" % (kind, n, e.bucket), True, tags)
    if status == INC:
        return Verdict(False, "%s over %d variables (%s): INCONSISTENCY reported on a satisfiable box" % (kind, n, "pairwise disjoint domains {3i, 3i+1}" if keep is None else "vertex 0 -> %d, all other vertices free" % (n - 1)), True, tags)
    out = [list(map(int, o)) for o in out]
    if not within(out, box):
        return Verdict(False, "%s over %d variables: output box not contained in the input box" % (kind, n), True, tags)
    if keep is None:
        bad = [i for i in range(n) if out[i] != box[i]]
        if bad:
            return Verdict(False, "%s over %d variables with pairwise disjoint domains: variable %d narrowed from %s to %s although every tuple is a solution" % (kind, n, bad[0], box[bad[0]], out[bad[0]]), True, tags)
    else:
        bad = [i for i in range(n) if not (out[i][0] <= keep[i] <= out[i][1])]
        if bad:
            return Verdict(False, "no_sub_cycle over %d vertices, 0 -> %d: the successor %d of vertex %d, part of a Hamiltonian circuit of the box, was removed (domain now %s)" % (n, n - 1, keep[bad[0]], bad[0], out[bad[0]]), True, tags)
    return Verdict(True, "", True, tags)


def check_c05(case):
    if "big" in case:
        return check_big(case)
    assert in_contract(case["type"], case["params"], case["box"]), case
    name = case["type"]
    sols, _ = solutions(case)
    nt = (not is_point(case["box"])) and len(sols) != box_size(case["box"])
    tags = ["type:" + name, "sat" if sols else "unsat"]
    try:
        status, out = call(case)
    except EngineError as e:
        return Verdict(False, "filtering call raised %s" % e.bucket, nt, tags)
    tags.append("status:%d" % status)
    if status == INC:
        if sols:
            return Verdict(False, "INCONSISTENCY reported but %s satisfies the constraint" % (list(sols[0]),), nt, tags)
        return Verdict(True, "", nt, tags)
    if not within(out, case["box"]):
        return Verdict(False, "output box %s not contained in input box" % out, nt, tags)
    for s in sols:
        if any(not (o[0] <= x <= o[1]) for x, o in zip(s, out)):
            return Verdict(False, "solution %s of the input box removed; output %s" % (list(s), out), nt, tags)
    return Verdict(True, "", nt, tags)


def check_c06(case):
    """Point boxes: INCONSISTENCY iff the tuple violates the relation.  Other boxes: a collapse to a point
    without INCONSISTENCY must satisfy the relation."""
    assert in_contract(case["type"], case["params"], case["box"]), case
    name = case["type"]
    rel = TYPES[name].rel
    tags = ["type:" + name]
    try:
        status, out = call(case)
    except EngineError as e:
        return Verdict(False, "filtering call raised %s" % e.bucket, False, tags)
    if is_point(case["box"]):
        t = [lo for lo, _ in case["box"]]
        r = rel(t, list(case["params"]))
        if r is None:
            return Verdict(True, "", False, tags + ["undecided"])
        tags.append("point:" + ("sat" if r else "viol"))
        if r and status == INC:
            return Verdict(False, "satisfying tuple %s rejected" % t, False, tags)
        if (not r) and status != INC:
            return Verdict(False, "violating tuple %s accepted (status %s)" % (t, nx.STATUS_NAME.get(status, status)), True, tags)
        return Verdict(True, "", not r, tags)
    if status != INC and is_point(out):
        t = [lo for lo, _ in out]
        r = rel(t, list(case["params"]))
        tags.append("collapse")
        if r is False:
            return Verdict(False, "call collapsed the box to the violating tuple %s (status %s)" % (t, nx.STATUS_NAME.get(status, status)), True, tags)
        return Verdict(True, "", r is not None, tags)
    return Verdict(True, "", False, tags + ["no-collapse"])


def check_c07(case):
    assert in_contract(case["type"], case["params"], case["box"]), case
    name = case["type"]
    rel = TYPES[name].rel
    tags = ["type:" + name]
    try:
        status, out = call(case)
    except EngineError as e:
        return Verdict(True, "", False, tags + ["aborted:" + e.bucket])
    tags.append("status:%d" % status)
    if status != ENT:
        return Verdict(True, "", False, tags)
    nt = not is_point(out)
    if any(lo > hi for lo, hi in out):
        return Verdict(False, "ENTAILMENT answered with an empty domain in %s" % out, nt, tags)
    p = list(case["params"])
    for t in box_points(out):
        if rel(list(t), p) is False:
            return Verdict(False, "ENTAILMENT answered but %s of the returned box %s violates the constraint" % (list(t), out), nt, tags)
    return Verdict(True, "", nt, tags)


def check_c14(case):
    assert in_contract(case["type"], case["params"], case["box"]), case
    name = case["type"]
    tags = ["type:" + name]
    try:
        status, out = call(case)
    except EngineError as e:
        return Verdict(False, "filtering call raised %s" % e.bucket, False, tags)
    if name == "affine_eq":
        ref = affine_eq_one_round(case["params"], case["box"])
        nt = ref is not None and ref != case["box"]
        if ref is None:
            if status != INC:
                return Verdict(False, "one round of interval reasoning empties a domain but status is %s, box %s" % (nx.STATUS_NAME.get(status), out), True, tags)
            return Verdict(True, "", True, tags + ["ref-empty"])
        if status == INC:
            # allowed only when the box has no solution at all (soundness is C05)
            sols, _ = solutions(case)
            if sols:
                return Verdict(False, "INCONSISTENCY although %s is a solution" % (list(sols[0]),), nt, tags)
            return Verdict(True, "", nt, tags + ["extra-inconsistency"])
        if out != ref:
            return Verdict(False, "output %s differs from one round of interval reasoning %s" % (out, ref), nt, tags)
        return Verdict(True, "", nt, tags)
    sols, _ = solutions(case)
    if not sols:
        if status != INC:
            return Verdict(False, "no tuple satisfies the constraint but status is %s (box %s)" % (nx.STATUS_NAME.get(status), out), True, tags + ["unsat"])
        return Verdict(True, "", True, tags + ["unsat"])
    h = hull(sols, len(case["box"]))
    nt = h != [list(b) for b in case["box"]]
    if status == INC:
        return Verdict(False, "INCONSISTENCY although %s is a solution" % (list(sols[0]),), nt, tags)
    if out != h:
        return Verdict(False, "output %s is not the bounds hull %s of the solutions" % (out, h), nt, tags)
    # idempotence: a second consecutive call changes nothing
    try:
        status2, out2 = engine(nx.compute_domains, name, out, case["params"])
    except EngineError as e:
        return Verdict(False, "second call raised %s" % e.bucket, nt, tags)
    if status2 == INC or out2 != out:
        return Verdict(False, "second consecutive call changed %s into %s (status %s)" % (out, out2, nx.STATUS_NAME.get(status2)), nt, tags)
    return Verdict(True, "", nt, tags)


CHECKS = {"C05": check_c05, "C06": check_c06, "C07": check_c07, "C14": check_c14}
TYPES_FOR = {"C05": ALL_TYPES, "C06": ALL_TYPES, "C07": ENTAIL_TYPES, "C14": EXACT_BC_TYPES + ["affine_eq"]}


# ----------------------------------------------------------------------------------------------
# exhaustive small scope
# ----------------------------------------------------------------------------------------------
def intervals(lo, hi):
    return [[a, b] for a in range(lo, hi + 1) for b in range(a, hi + 1)]


def points(lo, hi):
    return [[a, a] for a in range(lo, hi + 1)]


def small_scope(name, level, point=False, allow_zero_cap=True):
    """
    Enumerate every (params, box) of a small scope for one type.  level 1 = quick, 2 = thorough.
    With point=True only fully instantiated boxes (wider value window, C06).
    """
    t = TYPES[name]
    iv = points if point else intervals
    W = (-1, 2) if not point else (-2, 3)
    max_n = {1: 2, 2: 3}[level]
    if point:
        max_n += 1

    def boxes(n, lo=W[0], hi=W[1]):
        return product(iv(lo, hi), repeat=n)

    if name.startswith("affine"):
        for n in range(1, max_n + 1):
            crange = range(-2, 3)
            for cs in product(crange, repeat=n):
                for r in range(-3, 4):
                    for b in boxes(n):
                        yield {"type": name, "params": list(cs) + [r], "box": [list(x) for x in b]}
    elif name in ("alldifferent", "dummy"):
        top = max_n + 2 if (point or name == "dummy") else max_n + 3  # alldifferent: 4 variables in quick, 5 in thorough
        for n in range(1, top):
            for b in boxes(n, 0, 3 if (n < 4 or name == "alldifferent") else 2):
                yield {"type": name, "params": [], "box": [list(x) for x in b]}
    elif t.boolean:
        for n in range(t.min_n, max_n + 3):
            for b in product(iv(0, 1), repeat=n):
                if name == "and":
                    yield {"type": name, "params": [], "box": [list(x) for x in b]}
                else:
                    for c in range(0, n + 1):
                        yield {"type": name, "params": [c], "box": [list(x) for x in b]}
    elif name == "count_eq":
        for n in range(2, max_n + 2):
            for a in range(0, 3):
                for b in boxes(n - 1, 0, 2):
                    for cb in iv(-1, n):
                        yield {"type": name, "params": [a], "box": [list(x) for x in b] + [list(cb)]}
    elif name == "element_iv":
        for ln in range(1, max_n + 1):
            for l in product(range(0, 3), repeat=ln):
                for ib in iv(-1, ln):
                    for vb in iv(-1, 3):
                        yield {"type": name, "params": list(l), "box": [list(ib), list(vb)]}
    elif name == "element_lic":
        for n in range(2, max_n + 2):
            for c in range(0, 3):
                for b in boxes(n - 1, 0, 2):
                    for ib in iv(-1, n - 1):
                        yield {"type": name, "params": [c], "box": [list(x) for x in b] + [list(ib)]}
    elif name == "element_liv":
        for n in range(3, max_n + 2):
            for b in boxes(n - 2, 0, 2):
                for ib in iv(-1, n - 2):
                    for vb in iv(-1, 3):
                        yield {"type": name, "params": [], "box": [list(x) for x in b] + [list(ib), list(vb)]}
    elif name == "exactly_eq":
        for n in range(1, max_n + 2):
            for a in range(0, 3):
                for c in range(0, n + 1):
                    for b in boxes(n, 0, 2):
                        yield {"type": name, "params": [a, c], "box": [list(x) for x in b]}
    elif name == "gcc":
        for n in range(1, max_n + 1):
            for m in range(1, 4):
                caps = []
                for lbs in product(range(0, 3), repeat=m):
                    for dus in product(range(0, 3 if m < 3 else 2), repeat=m):
                        ubs = [l + d for l, d in zip(lbs, dus)]
                        if not allow_zero_cap and any(u == 0 for u in ubs):
                            continue
                        caps.append((lbs, ubs))
                for lbs, ubs in caps:
                    for b in product(iv(0, m - 1), repeat=n):
                        yield {"type": name, "params": [0] + list(lbs) + list(ubs), "box": [list(x) for x in b]}
    elif name == "lexicographic_leq":
        for k in range(1, 4 + (level > 1)):
            if point and k > 3:
                continue
            for b in boxes(2 * k, 0, 3 if k == 1 else 2 if k <= 3 else 1):
                yield {"type": name, "params": [], "box": [list(x) for x in b]}
    elif name in ("max_eq", "max_leq", "min_eq", "min_geq"):
        for n in range(2, max_n + 2):
            for b in boxes(n, 0, 3 if n < 4 else 2):
                yield {"type": name, "params": [], "box": [list(x) for x in b]}
    elif name == "relation":
        for n in range(1, 3):
            for k in range(1, 3 + (level > 1)):
                for tup in product(range(0, 3 if n == 1 else 2), repeat=n * k):
                    for b in boxes(n, 0, 2):
                        yield {"type": name, "params": list(tup), "box": [list(x) for x in b]}
    elif t.perm:
        for n in range(t.min_n, 4 + (level > 1) if not point else 9 + (level > 1)):
            if point:
                from itertools import permutations

                # every tuple up to 5 vertices, every permutation up to 8 (thorough: 9) vertices
                src = product(range(n), repeat=n) if n <= 5 else permutations(range(n))
                for tup in src:
                    yield {"type": name, "params": [], "box": [[x, x] for x in tup]}
            else:
                for b in product(iv(0, n - 1), repeat=n):
                    yield {"type": name, "params": [], "box": [list(x) for x in b]}


def strategy(prop, tier, allow_zero_cap=True):
    types = TYPES_FOR[prop]
    if tier == "quick":
        base = gen.box_case(types=types, max_n=5, max_w=3, allow_zero_cap=allow_zero_cap)
        pts = gen.box_case(types=types, max_n=5, max_w=0, point=True, allow_zero_cap=allow_zero_cap)
    else:
        base = gen.box_case(types=types, max_n=6, max_w=4, lo=-4, hi=5, allow_zero_cap=allow_zero_cap, big=True)
        pts = gen.box_case(types=types, max_n=7, max_w=0, point=True, lo=-4, hi=5, allow_zero_cap=allow_zero_cap, big=True)
    # the same shapes far away from zero (gen.far_box_case): one case in five
    kw = dict(types=types, max_n=5, max_w=3, allow_zero_cap=allow_zero_cap) if tier == "quick" else dict(types=types, max_n=6, max_w=4, lo=-4, hi=5, allow_zero_cap=allow_zero_cap, big=True)
    far = gen.far_box_case(**kw)
    if prop == "C06":
        far_pts = gen.far_box_case(**dict(kw, max_w=0, point=True))
        return st.one_of(pts, pts, base, pts, base, far_pts, far)
    return st.one_of(base, base, base, base, far)


# ----------------------------------------------------------------------------------------------
# jobs
# ----------------------------------------------------------------------------------------------
SCOPE_LEVEL = {"quick": 1, "thorough": 2}
RAND_EXAMPLES = {"quick": 5000, "thorough": 60000}


def in_small_scope(case, level):
    """Conservative test used only to avoid double counting random cases that the exhaustive job also visits."""
    n = len(case["box"])
    if n > {1: 3, 2: 4}[level] + 1:
        return False
    return all(-2 <= lo and hi <= 3 for lo, hi in case["box"])


FUZZ_RUNS = {"quick": 6000, "thorough": 150000}


def jobs(prop, tier):
    return [
        {"name": "exh", "mode": "I", "shards": 16, "case_timeout": 120},
        {"name": "rand", "mode": "I", "shards": 16, "case_timeout": 120},
        {"name": "fuzz", "mode": "I", "shards": 2 if tier == "quick" else 8},
        # the same oracles on the compiled propagators (direct calls of the jitted functions)
        {"name": "rand-J", "mode": "J", "shards": 2 if tier == "quick" else 8},
    ] + ([{"name": "exh-J", "mode": "J", "shards": 8}] if tier != "quick" else []) + ([{"name": "big-J", "mode": "J", "shards": 1, "case_timeout": 600}] if prop == "C05" else [])


def run_fuzz(prop, shard, seed, tier):
    """Coverage-guided campaign (atheris/libFuzzer over the Hypothesis strategies); see fuzz/box_fuzz.py."""
    import json
    import os
    import shutil
    import subprocess
    import sys

    from vlib.run import Recorder

    rec = Recorder()
    here = os.path.dirname(os.path.dirname(os.path.dirname(os.path.abspath(__file__))))
    if not os.path.isdir(os.path.join(here, ".deps", "atheris")):
        rec.tag("fuzz:atheris-not-installed")
        return rec.result()
    base = (os.environ.get("VERIF_JOURNAL") or "/tmp/boxfuzz-%d" % os.getpid()) + ".fuzz"
    corpus = base + ".corpus"
    shutil.rmtree(corpus, ignore_errors=True)
    os.makedirs(corpus)
    if shard % 2 == 1:
        # second kind of starting corpus: a few small valid inputs (the empty corpus is the other kind)
        for i, blob in enumerate([b"\x00" * 8, b"\x01\x02\x03\x04" * 4, bytes(range(32))]):
            open(os.path.join(corpus, "seed%d" % i), "wb").write(blob)
    state = base + ".json"
    env = {k: v for k, v in os.environ.items() if k != "VERIF_JOURNAL"}
    cmd = [sys.executable, os.path.join(here, "fuzz", "box_fuzz.py"), prop, state, "-runs=%d" % FUZZ_RUNS[tier], "-seed=%d" % (seed * 131 + shard + 1), "-max_len=768", "-artifact_prefix=" + base + ".crash-", corpus]
    r = subprocess.run(cmd, capture_output=True, text=True, env=env, cwd=here)
    try:
        st_ = json.load(open(state))
    except (OSError, ValueError):
        raise RuntimeError("fuzz target produced no state: " + r.stderr[-1500:])
    rec.evaluations = st_["evaluations"]
    rec.nontrivial = set(st_["nontrivial"])
    rec.samples = st_["samples"]
    rec.hist = st_["hist"]
    cov = [l for l in r.stderr.splitlines() if " cov: " in l]
    if cov:
        import re

        m = re.search(r"cov: (\d+) ft: (\d+)", cov[-1])
        if m:
            rec.tag("fuzz:coverage-edges", int(m.group(1)))
            rec.tag("fuzz:features", int(m.group(2)))
    if st_["failure"]:
        rec.failures.append(st_["failure"])
    shutil.rmtree(corpus, ignore_errors=True)
    for f in (state,):
        if os.path.exists(f):
            os.remove(f)
    import glob

    for f in glob.glob(base + ".crash-*"):
        os.remove(f)
    return rec.result()


def run(prop, job, shard, nshards, seed, tier):
    from vlib.run import Recorder, case_hash, drive, shard_seed

    check = CHECKS[prop]
    rec = Recorder()
    level = SCOPE_LEVEL[tier]
    if job["name"] in ("exh", "exh-J"):
        from vlib.run import journal

        jr = journal()
        k = 0
        nontrivial = 0
        passes = [False, True] if prop == "C06" else [False]
        for point in passes:
            for name in TYPES_FOR[prop]:
                for case in small_scope(name, level, point=point):
                    k += 1
                    if k % nshards != shard:
                        continue
                    jr.begin(case)
                    v = check(case)
                    rec.evaluations += 1
                    for t in v.tags:
                        rec.tag(t)
                    if v.nontrivial:
                        nontrivial += 1
                        if len(rec.samples) < 3 and nontrivial % 997 == 1:
                            rec.samples.append(case)
                    if not v.ok:
                        # one failure per type and message class is enough; keep the first (smallest scope first)
                        key = (name, v.msg.split(" ")[0])
                        if not any(f.get("_key") == repr(key) for f in rec.failures):
                            rec.failures.append({"case": case, "msg": v.msg, "_key": repr(key)})
        jr.end()
        res = rec.result()
        res["exhaustive_nontrivial"] = nontrivial if job["name"] == "exh" else 0  # the same cases in both modes: counted once
        res["exhaustive_scope"] = "level %d" % level
        for f in res["failures"]:
            f.pop("_key", None)
        return res
    if job["name"] == "big-J":
        from vlib.run import journal

        jr = journal()
        for case in big_cases():
            jr.begin(case)
            v = check(case)
            rec.evaluations += 1
            for t in v.tags:
                rec.tag(t)
            if not v.ok:
                rec.failures.append({"case": case, "msg": v.msg})
        jr.end()
        res = rec.result()
        res["exhaustive_nontrivial"] = len(big_cases())
        return res
    if job["name"] == "fuzz":
        return run_fuzz(prop, shard, seed, tier)
    if job["name"] in ("rand", "rand-J"):
        strat = strategy(prop, tier)

        def chk(case):
            v = check(case)
            if any(abs(x) > 100 for b in case.get("box", []) for x in b):
                v.tags = list(v.tags) + ["far-values"] + (["far-values-nontrivial"] if v.nontrivial else [])
            if v.nontrivial and in_small_scope(case, level):
                v.nontrivial = False
                v.tags = list(v.tags) + ["in-exhaustive-scope"]
            return v

        drive(strat, chk, rec, shard_seed(seed, shard), RAND_EXAMPLES[tier])
        return rec.result()
    raise ValueError(job)


def replay(prop, case):
    return CHECKS[prop](case)


RULES = {
    "C05": "cases = (type, parameters, box): every box of the small scope enumerated + Hypothesis boxes beyond it; "
    "non-trivial = input box is not a point and the brute-force solution set is a strict subset of the box; "
    "distinct = exhaustive cases are distinct by construction, random cases by SHA-1 of the canonical JSON and counted only outside the exhaustive scope; "
    "plus 15 scopes of 32767..65535 variables (alldifferent / gcc on pairwise disjoint domains, no_sub_cycle with one ground vertex) whose solutions are known without enumeration",
    "C06": "cases = point boxes (every tuple of the small scope + random points) and non-point boxes (collapse detection); "
    "non-trivial = the point violates the documented relation, or a single call collapsed a non-point box to a point; distinct as in C05",
    "C07": "cases = boxes for the types that can answer ENTAILMENT; non-trivial = status ENTAILMENT on a box that is not a point; distinct as in C05",
    "C14": "cases = boxes for the documented bound-consistent types (+ affine_eq against one round of interval reasoning); "
    "non-trivial = the hull (resp. one-round box) is strictly inside the input box, or the box has no solution; distinct as in C05",
}
