"""C11 — see vlib/props/mplevel.py (DESIGN.md 4)."""

from vlib.props import mplevel as _s

PROP = "C11"
META = {"level": "exploration", "rule": _s.RULES[PROP]}
REPLAY_MODE = "I"


def jobs(tier):
    return _s.jobs(PROP, tier)


def run(job, shard, nshards, seed, tier):
    return _s.run(PROP, job, shard, nshards, seed, tier)


def replay(case):
    return _s.replay(PROP, case)
