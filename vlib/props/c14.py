"""C14 — see vlib/props/boxlevel.py (DESIGN.md 4)."""

from vlib.props import boxlevel as _b

PROP = "C14"
META = {"level": "exploration", "rule": _b.RULES[PROP], "exhaustive_part": "every (parameters, box) of the small scope for the 18 documented bound-consistent types and affine_eq"}


def jobs(tier):
    return _b.jobs(PROP, tier)


def run(job, shard, nshards, seed, tier):
    return _b.run(PROP, job, shard, nshards, seed, tier)


def replay(case):
    return _b.replay(PROP, case)
