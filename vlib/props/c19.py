"""
C19 — exceeding a configured capacity is reported, never silently corrupting (DESIGN.md 4).

Oracle = differential against an ample capacity: the same problem with a stack far higher than any search
needs gives the reference enumeration (sequence of solutions + statistics).  With the capacity under test the
run must either raise / be refused, or deliver exactly the reference's first m solutions and, for a full
enumeration, the same statistics — never a hang, a crash of the process, or a different vector.

Case: {"kind": "stack", "doms": [[lo,hi],...], "cons": "none"|"alldifferent"|"leq", "height": H, "cfg": cfg, "m": solutions to take}
      {"kind": "size", "what": "scope"|"params"|"domains"|"algorithms"|"height", "n": N}
"""

import os
from collections import Counter

from hypothesis import strategies as st

from vlib import gen, nx
from vlib.run import EngineError, Verdict, engine

HEIGHTS = [1, 2, 3, 4, 5, 6, 7, 8, 9, 16, 17, 127, 128, 129, 255, 256, 257, 300, 512]


def stack_problem(case):
    doms = [list(d) for d in case["doms"]]
    n = len(doms)
    pc = {"shr": doms, "idx": list(range(n)), "off": [0] * n, "props": []}
    if case["cons"] == "leq":
        pc["props"].append({"type": "affine_leq", "vars": list(range(min(n, 6))), "params": [1] * min(n, 6) + [sum(d[1] for d in doms[:6]) - 1]})
    elif case["cons"] == "lex" and n >= 2:
        k = min(n // 2, 3)
        pc["props"].append({"type": "lexicographic_leq", "vars": list(range(2 * k)), "params": []})
    elif case["cons"] == "dummy":
        pc["props"].append({"type": "dummy", "vars": list(range(min(n, 4))), "params": []})
    return pc


def take(pc, cfg, height, m):
    """First m solutions + statistics (None for the statistics when the enumeration was not exhausted)."""
    solver = nx.make_solver(nx.build_problem(pc), cfg, height)
    it = solver.solve()
    out = []
    exhausted = False
    for _ in range(m):
        try:
            out.append(nx.vec(next(it)))
        except StopIteration:
            exhausted = True
            break
    return out, solver.get_statistics(), exhausted


def depth_needed(case):
    """Stack levels of the first descent (the deepest point of an enumeration in these free problems)."""
    dom = case["cfg"]["dom"]
    d = 0
    for lo, hi in case["doms"]:
        w = hi - lo
        d += (2 if w >= 2 else 1) if dom in ("mid", "min_cost") else (1 if w <= 1 else 2) if dom == "split_low" else 1
    return d


def check_stack(case):
    pc = stack_problem(case)
    cfg, H, m = case["cfg"], case["height"], case["m"]
    need = depth_needed(case)
    tags = ["height:%d" % H, "dom:" + cfg["dom"], "cons:" + cfg["cons"], "need-vs-height:%s" % ("far-below" if need < H - 3 else "near" if need <= H + 3 else "beyond")]
    nt = need >= H - 3
    ample = 4 * sum(hi - lo for lo, hi in case["doms"]) + 64
    try:
        ref, ref_stats, ref_exh = engine(take, pc, cfg, ample, m)
    except EngineError as e:
        return Verdict(True, "", False, tags + ["reference-aborted:" + e.bucket])
    try:
        got, stats, exh = engine(take, pc, cfg, H, m)
    except EngineError as e:
        tags.append("outcome:raised")
        if e.bucket.startswith("IndexError"):
            # not a capacity error: the engine tried to index outside its stacks and only NumPy's bounds check (absent from
            # the compiled engine) stopped it
            return Verdict(False, "the engine indexes outside its stacks (%s): under compilation this write corrupts memory silently [%d domains, widest %d, %s/%s/%s, stack_max_height=%d]" % (e.bucket, len(case["doms"]), max(hi - lo + 1 for lo, hi in case["doms"]), cfg["cons"], cfg["var"], cfg["dom"], H), nt, tags)
        return Verdict(True, "", nt, tags)
    tags.append("outcome:completed")
    where = "[%d domains, widest %d, %s/%s/%s, stack_max_height=%d, first %d solutions]" % (len(case["doms"]), max(hi - lo + 1 for lo, hi in case["doms"]), cfg["cons"], cfg["var"], cfg["dom"], H, m)
    if got != ref:
        k = next((i for i, (a, b) in enumerate(zip(got, ref)) if a != b), min(len(got), len(ref)))
        return Verdict(False, "with the configured height the run silently differs from the run with an ample stack at solution #%d: %s vs %s (%d vs %d solutions) %s" % (k, list(got[k]) if k < len(got) else None, list(ref[k]) if k < len(ref) else None, len(got), len(ref), where), nt, tags)
    if exh != ref_exh:
        return Verdict(False, "enumeration ends differently than with an ample stack %s" % where, nt, tags)
    if stats != ref_stats:
        diff = {k: (stats[k], ref_stats[k]) for k in stats if stats[k] != ref_stats[k]}
        return Verdict(False, "same solutions but different statistics than with an ample stack: %s %s" % (diff, where), nt, tags)
    return Verdict(True, "", nt, tags)


@st.composite
def stack_case(draw, tier):
    H = draw(st.sampled_from(HEIGHTS))
    cfg = {"cons": draw(st.sampled_from(["bc", "bc", "shaving"])), "var": draw(st.sampled_from(["first", "smallest", "greatest"])), "dom": draw(st.sampled_from(["min", "max", "split_low", "mid"]))}
    per = 2 if cfg["dom"] == "mid" else 1
    # number of free domains such that the depth is height-3 .. height+3 (sometimes far below)
    delta = draw(st.sampled_from([-3, -2, -1, 0, 1, 2, 3, 4, -20]))
    target = max(1, H + delta)
    shape = draw(st.sampled_from(["bool", "w3", "mixed"]))
    doms = []
    depth = 0
    while depth < target and len(doms) < 600:
        w = 1 if shape == "bool" else 2 if shape == "w3" else draw(st.integers(1, 3))
        doms.append([0, w])
        # stack levels the first descent spends on this domain
        if cfg["dom"] == "mid":
            depth += 2 if w >= 2 else 1
        elif cfg["dom"] == "split_low":
            depth += 1 if w == 1 else 2
        else:
            depth += 1
    cons = draw(st.sampled_from(["none", "none", "leq", "lex", "dummy"]))
    return {"kind": "stack", "doms": doms, "cons": cons, "height": H, "cfg": cfg, "m": draw(st.sampled_from([1, 2, 3, 5]))}


# ----------------------------------------------------------------------------------------------
# the same capacity, reached inside a worker of the multiprocessing solver (real processes): the caller must get an error
# or exactly the reference result, never the results of the workers that happened to fit
# ----------------------------------------------------------------------------------------------
def mp_problem(case):
    """n Booleans with sum == c (c = 1 with min-value, c = n-1 with max-value: n solutions at depth about n-1), plus one free
    variable z in [0, w] that only multiplies the solutions and is what split() cuts."""
    n, w = case["n"], case["w"]
    doms = [[0, 1] for _ in range(n)] + [[0, w]]
    pc = {"shr": doms, "idx": list(range(n + 1)), "off": [0] * (n + 1), "props": []}
    c = 1 if case["cfg"]["dom"] == "min" else n - 1
    pc["props"].append({"type": "affine_eq" if case["lin"] == "eq" else ("affine_leq" if c == 1 else "affine_geq"), "vars": list(range(n)), "params": [1] * n + [c]})
    return pc


def check_stack_mp(case):
    from vlib import mpfake

    pc, cfg, H = mp_problem(case), case["cfg"], case["height"]
    n = case["n"]
    tags = ["mp", "height:%d" % H, "k:%d" % case["k"], "op:" + case["op"], "need-vs-height:%s" % ("far-below" if n - 1 < H - 3 else "near" if n - 1 <= H + 3 else "beyond")]
    nt = n - 1 >= H - 3
    ample = 2 * n + 64
    split_var = n if case["split"] == "z" else case["split_x"] % n
    try:
        ref_solver = engine(nx.make_solver, nx.build_problem(pc), cfg, ample)
        if case["op"] == "enum":
            ref = Counter(nx.vec(s) for s in engine(ref_solver.find_all))
        else:
            r = engine(ref_solver.minimize if case["op"] == "min" else ref_solver.maximize, case["obj"] % (n + 1))
            ref = None if r is None else int(r[case["obj"] % (n + 1)])
    except EngineError as e:
        return Verdict(True, "", False, tags + ["reference-aborted:" + e.bucket])
    where = "[%d Booleans with sum %s, z in [0,%d], split(%d, %s), %s/%s/%s, stack_max_height=%d for every worker, %s]" % (n, pc["props"][0]["type"] + " " + str(pc["props"][0]["params"][-1]), case["w"], case["k"], "z" if split_var == n else "x%d" % split_var, cfg["cons"], cfg["var"], cfg["dom"], H, case["op"])
    try:
        subs = engine(nx.build_problem(pc).split, case["k"], split_var)
        solvers = [engine(nx.make_solver, sp, cfg, H) for sp in subs]
        ms = mpfake.MultiprocessingSolver(solvers, log_level="CRITICAL")
        if case["op"] == "enum":
            got = Counter(nx.vec(s) for s in engine(lambda: list(ms.solve())))
        else:
            r = engine(ms.minimize if case["op"] == "min" else ms.maximize, case["obj"] % (n + 1))
            got = None if r is None else int(r[case["obj"] % (n + 1)])
    except EngineError as e:
        tags.append("outcome:raised")
        return Verdict(True, "", nt, tags)
    tags.append("outcome:completed")
    if got != ref:
        if case["op"] == "enum":
            return Verdict(False, "the multiprocessing solver returned %d solutions without raising; with an ample stack there are %d (%d missing, %d extra): a worker that ran out of stack was taken for a finished one %s" % (sum(got.values()), sum(ref.values()), sum((ref - got).values()), sum((got - ref).values()), where), nt, tags)
        return Verdict(False, "the multiprocessing solver returned the value %s without raising; with an ample stack the optimum is %s %s" % (got, ref, where), nt, tags)
    return Verdict(True, "", nt, tags)


@st.composite
def stack_mp_case(draw, tier):
    H = draw(st.sampled_from([3, 4, 5, 6, 8, 9, 16, 17, 127, 128, 129]))
    cfg = {"cons": draw(st.sampled_from(["bc", "bc", "shaving"])) if H < 100 else "bc", "var": "first", "dom": draw(st.sampled_from(["min", "max"]))}
    n = max(2, H + draw(st.sampled_from([-2, -1, 0, 1, 2, 3, 4, 8])))
    return {
        "kind": "stack_mp",
        "n": n,
        "w": draw(st.integers(0, 2)),
        "lin": draw(st.sampled_from(["eq", "eq", "ineq"])),
        "height": H,
        "cfg": cfg,
        "k": draw(st.integers(1, 3)),
        "split": draw(st.sampled_from(["z", "x"])),
        "split_x": draw(st.integers(0, 200)),
        "op": draw(st.sampled_from(["enum", "enum", "min", "max"])),
        "obj": draw(st.integers(0, 300)),
    }


# ----------------------------------------------------------------------------------------------
# sizes around the 8/16-bit limits of the index types
# ----------------------------------------------------------------------------------------------
def size_problem(what, n):
    """A problem whose solution set is known analytically: 3 free Booleans, everything else fixed."""
    P = nx.P
    if what == "scope":
        # total scope length n: constraints of 1000 variables each over fixed variables + one on the free ones
        nvar = 1003
        doms = [(0, 1)] * 3 + [(1, 1)] * 1000
        pb = nx.Problem(list(doms))
        pb.add_propagator(([0, 1, 2], P.ALG_AFFINE_LEQ, [1, 1, 1, 2]))
        total = 3
        while total < n:
            k = min(1000, n - total)
            pb.add_propagator((list(range(3, 3 + k)), P.ALG_AFFINE_GEQ, [1] * k + [k]))
            total += k
        return pb, nvar, 7
    if what == "params":
        doms = [(0, 1)] * 3 + [(0, 0)] * 2
        pb = nx.Problem(list(doms))
        pb.add_propagator(([0, 1, 2], P.ALG_AFFINE_LEQ, [1, 1, 1, 2]))
        total = 4
        while total < n:
            k = min(2000, n - total)
            k = max(2, k - k % 2)
            # relation over the two fixed variables with k/2 tuples, one of which is (0, 0)
            tuples = [0, 0] + [1, 1] * (k // 2 - 1)
            pb.add_propagator(([3, 4], P.ALG_RELATION, tuples))
            total += k
        return pb, 5, 7
    if what == "domains":
        doms = [(0, 1)] * 3 + [(2, 2)] * (n - 3)
        pb = nx.Problem(list(doms))
        pb.add_propagator(([0, 1, n - 1], P.ALG_AFFINE_LEQ, [1, 1, 1, 3]))
        return pb, n, 6
    raise ValueError(what)


def check_size(case):
    what, n = case["what"], case["n"]
    tags = ["size:" + what, "n:%s" % ("<limit" if n < 65536 else ">=limit")]
    nt = abs(n - 65536) <= 700 or what in ("algorithms", "height")
    if what == "height":
        pc = {"shr": [[0, 1]] * 3, "idx": [0, 1, 2], "off": [0, 0, 0], "props": []}
        try:
            got, _, _ = engine(take, pc, {"cons": "bc", "var": "first", "dom": "min"}, n, 8)
        except EngineError:
            return Verdict(True, "", nt, tags + ["outcome:raised"])
        if len(got) != 8 or len(set(got)) != 8:
            return Verdict(False, "stack_max_height=%d accepted but 3 free Booleans give %d solutions (%d distinct)" % (n, len(got), len(set(got))), nt, tags)
        return Verdict(True, "", nt, tags + ["outcome:completed"])
    if what == "algorithms":
        # an algorithm index beyond what the problem arrays can hold
        P = nx.P
        while len(P.COMPUTE_DOMAINS_FCTS) < n:
            P.register_propagator(P.GET_TRIGGERS_FCTS[P.ALG_DUMMY], P.GET_COMPLEXITY_FCTS[P.ALG_DUMMY], P.COMPUTE_DOMAINS_FCTS[P.ALG_DUMMY])
        alg = len(P.COMPUTE_DOMAINS_FCTS) - 1
        pb = nx.Problem([(0, 1)] * 3)
        pb.add_propagator(([0, 1, 2], alg, []))
        pb.add_propagator(([0, 1, 2], P.ALG_AFFINE_LEQ, [1, 1, 1, 2]))
        expect, nvar = 7, 3
    else:
        try:
            pb, nvar, expect = engine(size_problem, what, n)
        except EngineError as e:
            return Verdict(True, "", nt, tags + ["outcome:refused-at-construction"])
    try:
        solver = engine(nx.make_solver, pb, {"cons": "bc", "var": "first", "dom": "min"}, 16)
        sols = [nx.vec(s) for s in engine(solver.find_all)]
    except EngineError as e:
        return Verdict(True, "", nt, tags + ["outcome:raised"])
    tags.append("outcome:completed")
    if len(sols) != expect or len(set(sols)) != expect:
        return Verdict(False, "problem with %s = %d was accepted but enumerates %d solutions (%d distinct) instead of %d" % (what, n, len(sols), len(set(sols)), expect), nt, tags)
    for s in sols:
        if len(s) != nvar or (what != "domains" and s[0] + s[1] + s[2] > 2) or (what == "domains" and s[0] + s[1] + s[-1] > 3):
            return Verdict(False, "problem with %s = %d was accepted but returns the wrong vector %s..." % (what, n, list(s[:6])), nt, tags)
    return Verdict(True, "", nt, tags)


def size_cases(tier):
    cs = []
    for what in ("scope", "params", "domains"):
        for n in ([65000, 65535, 65536, 65537, 66000, 70000] if tier == "quick" else [60000, 65000, 65534, 65535, 65536, 65537, 65600, 66000, 70000, 131072, 131080]):
            cs.append({"kind": "size", "what": what, "n": n})
    for n in (250, 256, 257, 300):
        cs.append({"kind": "size", "what": "algorithms", "n": n})
    for n in (0, 1, 255, 256, 257, 65532, 65533, 65535, 65536, 70000, 100000):
        cs.append({"kind": "size", "what": "height", "n": n})
    return cs


# ----------------------------------------------------------------------------------------------
# searches deeper than 2**16 levels: only reachable with a registered value heuristic; this one is built from the
# shipped value_dom_heuristic (value = max - 1), which leaves one pending alternative per solution
# ----------------------------------------------------------------------------------------------
_DEEP = {}


def deep_heuristic_idx():
    if "idx" not in _DEEP:
        from numba import njit

        from nucs.heuristics.heuristics import register_dom_heuristic
        from nucs.heuristics.value_dom_heuristic import value_dom_heuristic

        @njit(cache=False)
        def deep_dom_heuristic(params, shr_domains_stack, not_entailed_propagators_stack, dom_update_stack, stacks_top, dom_idx):
            return value_dom_heuristic(params, shr_domains_stack, not_entailed_propagators_stack, dom_update_stack, stacks_top, dom_idx, shr_domains_stack[stacks_top[0], dom_idx, 1] - 1)

        _DEEP["idx"] = register_dom_heuristic(deep_dom_heuristic)
    return _DEEP["idx"]


def check_deep(case):
    from nucs.solvers.backtrack_solver import BacktrackSolver

    H, D = case["height"], case["D"]
    tags = ["deep", "height:%s" % ("<65532" if H < 65532 else "65532..65536" if H <= 65536 else ">65536"), "depth:%s" % ("<=height" if D // 2 < H - 2 else ">height")]
    pb = nx.Problem([(0, D)])
    try:
        solver = engine(lambda: BacktrackSolver(pb, dom_heuristic_idx=deep_heuristic_idx(), stack_max_height=H, log_level="CRITICAL"))
        sols = [int(s[0]) for s in engine(lambda: list(solver.solve()))]
    except EngineError as e:
        return Verdict(True, "", True, tags + ["outcome:raised"])
    tags.append("outcome:completed")
    if sorted(sols) != list(range(D + 1)):
        return Verdict(False, "one variable in [0,%d] with a value heuristic leaving one pending alternative per solution, stack_max_height=%d: accepted and completed without error but yields %d solutions (%d distinct) instead of %d" % (D, H, len(sols), len(set(sols)), D + 1), True, tags)
    return Verdict(True, "", True, tags)


def deep_cases(tier):
    cs = []
    for H in [1000, 60000, 65530, 65531, 65532, 65533, 65534, 65535, 65536, 65537, 100000]:
        for D in ([500, 140000] if tier == "quick" else [500, 65000, 131060, 131072, 140000, 200000]):
            cs.append({"kind": "deep", "height": H, "D": D})
    return cs


def check(case):
    if case["kind"] == "deep":
        return check_deep(case)
    if case["kind"] == "stack_mp":
        return check_stack_mp(case)
    return check_stack(case) if case["kind"] == "stack" else check_size(case)


META = {
    "level": "exploration",
    "rule": "cases = (a) stack sweep: stack_max_height in {1,2,3,4,8,16,127,128,129,255,256,257,300,512} x free/lightly constrained problems whose search depth is height-3..height+4 (Boolean, width-3, mixed domains; mid pushes two "
    "levels per choice) x heuristics x BC/shaving x number of solutions taken, compared with the same run on an ample stack; (b) size sweep around the 8/16-bit limits: total scope length, total parameter length and number of shared "
    "domains around 65536, algorithm index around 256, stack_max_height around 256 and 65536, on problems with an analytically known solution set; oracle = raises / refused, or exactly the reference result; "
    "(c) the stack sweep inside workers of the multiprocessing solver (real processes over split(), enumeration / minimise / maximise): the call raises or returns exactly the result of one solver with an ample stack; "
    "non-trivial = needed depth >= height-3, or a size within 700 of a limit; distinct by SHA-1 of the canonical case",
    "assumptions": ["domain *values* beyond 32 bits are outside the documented contract and not generated"],
}
REPLAY_MODE = "J"
EXAMPLES = {"quick": (250, 250), "thorough": (2500, 2500)}
MP_EXAMPLES = {"quick": 25, "thorough": 300}


def jobs(tier):
    return [
        {"name": "stack-J", "mode": "J", "shards": 10, "case_timeout": 120, "crash_is_verdict": True},
        {"name": "stack-I", "mode": "I", "shards": 6, "case_timeout": 900},
        {"name": "size-J", "mode": "J", "shards": 2, "case_timeout": 600, "crash_is_verdict": True},
        {"name": "deep-J", "mode": "J", "shards": 2, "case_timeout": 600, "crash_is_verdict": True},
        {"name": "deep-I", "mode": "I", "shards": 4, "case_timeout": 900},
        {"name": "mp-J", "mode": "J", "shards": 2, "case_timeout": 180},
        {"name": "mp-I", "mode": "I", "shards": 2, "case_timeout": 180},
    ]


def run(job, shard, nshards, seed, tier):
    import json
    import time

    from vlib.run import Recorder, drive, shard_seed

    rec = Recorder()
    if job["name"] in ("size-J", "deep-J", "deep-I"):
        journal = os.environ.get("VERIF_JOURNAL")
        for i, case in enumerate(size_cases(tier) if job["name"] == "size-J" else deep_cases(tier)):
            if i % nshards != shard:
                continue
            if journal:
                with open(journal, "w") as jf:
                    json.dump({"t": time.time(), "case": case}, jf)
            v = check(case)
            rec.record(case, v)
            if not v.ok:
                rec.failures.append({"case": case, "msg": v.msg})
        if journal:
            open(journal, "w").write("{}")
        return rec.result()
    if job["name"] in ("mp-J", "mp-I"):
        drive(stack_mp_case(tier), check, rec, shard_seed(seed, shard, 63 if job["mode"] == "J" else 64), MP_EXAMPLES[tier], shrink_budget_s=90)
        return rec.result()
    n = EXAMPLES[tier][0 if job["mode"] == "J" else 1]
    drive(stack_case(tier), check, rec, shard_seed(seed, shard, 61 if job["mode"] == "J" else 62), n, shrink_budget_s=90)
    return rec.result()


def replay(case):
    return check(case)
