"""
C18 — a dying worker process cannot hang the multiprocessing solver (fault enumeration; DESIGN.md 4).

Real processes (fork).  The fault is injected without touching /repo: in the parent, BacktrackSolver's worker
entry points are rebound to a wrapper that hands the victim a queue proxy which dies at the enumerated point
(before the first message, after m messages, just before the completion marker) in the enumerated way
(os._exit, uncaught exception, SIGKILL); the forked children inherit the wrapper; the *real* parent loop of
MultiprocessingSolver is under test.

Case: {"n": variables, "w": domain width, "cons": constraint family, "k": workers, "victims": [[worker, point, kind], ...], "op": "enum"|"min"|"max"}
"""

import os
import signal
import threading
import time

from vlib import nx
from vlib.run import Verdict

DEADLINE_S = float(os.environ.get("VERIF_C18_DEADLINE", "40"))
KINDS = ["exit", "raise", "sigkill"]


def problem_case(case):
    n, w = case["n"], case["w"]
    pc = {"shr": [[0, w - 1]] * n, "idx": list(range(n)), "off": [0] * n, "props": []}
    pc["shr"] = [list(d) for d in pc["shr"]]
    if case["cons"] == "alldifferent":
        pc["props"].append({"type": "alldifferent", "vars": list(range(n)), "params": []})
    elif case["cons"] == "leq":
        pc["props"].append({"type": "affine_leq", "vars": list(range(n)), "params": [1] * n + [n * (w - 1) // 2]})
    return pc


class _DyingQueue:
    def __init__(self, real, point, kind):
        self.real, self.point, self.kind, self.sent = real, point, kind, 0

    def _die(self):
        if self.kind == "exit":
            os._exit(3)
        if self.kind == "sigkill":
            os.kill(os.getpid(), signal.SIGKILL)
            time.sleep(10)
        raise RuntimeError("injected fault")

    def put(self, item, *a, **k):
        is_marker = item[1] is None
        if self.point == "marker":
            if is_marker:
                self._die()
        elif self.sent >= self.point or is_marker:
            self._die()  # a victim never completes: with fewer messages than the point it dies before its marker
        self.real.put(item, *a, **k)
        self.sent += 1


def run_case(case):
    from nucs.solvers.backtrack_solver import BacktrackSolver
    from nucs.solvers.multiprocessing_solver import MultiprocessingSolver

    pc = problem_case(case)
    cfg = {"cons": "bc", "var": "first", "dom": "min"}
    pb = nx.build_problem(pc)
    subs = pb.split(case["k"], 0)
    solvers = [nx.make_solver(sp, cfg, nx.needed_height(pc, cfg)) for sp in subs]
    victims = {v[0]: (v[1], v[2]) for v in case["victims"] if v[0] < len(solvers)}
    orig_solve, orig_opt = BacktrackSolver.solve_and_queue, BacktrackSolver.optimize_and_queue

    def solve_and_queue(self, processor_idx, solution_queue):
        if processor_idx in victims:
            solution_queue = _DyingQueue(solution_queue, *victims[processor_idx])
        return orig_solve(self, processor_idx, solution_queue)

    def optimize_and_queue(self, variable_idx, update_domain_fct, processor_idx, solution_queue):
        if processor_idx in victims:
            solution_queue = _DyingQueue(solution_queue, *victims[processor_idx])
        return orig_opt(self, variable_idx, update_domain_fct, processor_idx, solution_queue)

    box = {}
    active = dict(victims)
    ms = MultiprocessingSolver(solvers, log_level="CRITICAL")

    def target():
        try:
            if case["op"] == "enum":
                box["result"] = [nx.vec(s) for s in ms.solve()]
            elif case["op"] == "min":
                r = ms.minimize(len(pc["idx"]) - 1)
                box["result"] = None if r is None else nx.vec(r)
            else:
                r = ms.maximize(len(pc["idx"]) - 1)
                box["result"] = None if r is None else nx.vec(r)
        except BaseException as e:  # noqa: BLE001 - raising is an accepted outcome
            box["raised"] = repr(e)

    import multiprocessing

    BacktrackSolver.solve_and_queue, BacktrackSolver.optimize_and_queue = solve_and_queue, optimize_and_queue
    # the same MultiprocessingSolver object may have served fault-free calls before the one in which a worker dies
    for _ in range(case.get("earlier_calls", 0)):
        victims.clear()
        warm = threading.Thread(target=target, daemon=True)
        warm.start()
        warm.join(DEADLINE_S)
        if warm.is_alive() or "raised" in box:
            BacktrackSolver.solve_and_queue, BacktrackSolver.optimize_and_queue = orig_solve, orig_opt
            box["raised"] = "fault-free earlier call did not return normally: %s" % box.get("raised", "blocked")
            return pc, box, warm.is_alive(), 0.0, 0, len(solvers)
        box.clear()
    victims.update(active)
    t0 = time.time()
    th = threading.Thread(target=target, daemon=True)
    try:
        th.start()
        th.join(DEADLINE_S)
        blocked = th.is_alive()
        elapsed = time.time() - t0
        children = multiprocessing.active_children()
        alive = [c for c in children if c.is_alive()]
    finally:
        BacktrackSolver.solve_and_queue, BacktrackSolver.optimize_and_queue = orig_solve, orig_opt
        for c in multiprocessing.active_children():
            try:
                c.kill()
            except Exception:  # noqa: BLE001
                pass
        for c in multiprocessing.active_children():
            c.join(2)
    return pc, box, blocked, elapsed, len(alive), len(solvers)


def check(case):
    tags = ["op:" + case["op"], "k:%d" % case["k"], "victims:%d" % len(case["victims"])] + ["kind:" + v[2] for v in case["victims"]] + ["point:%s" % v[1] for v in case["victims"]]
    pc, box, blocked, elapsed, alive, nworkers = run_case(case)
    what = "workers=%d victims=%s op=%s%s" % (nworkers, case["victims"], case["op"], " after %d fault-free call(s) on the same MultiprocessingSolver" % case["earlier_calls"] if case.get("earlier_calls") else "")
    if blocked:
        return Verdict(False, "the call is still blocked %.0f s after a worker died (%s; all the workers are %s); the fault-free call takes well under a second" % (elapsed, what, "gone" if alive == 0 else "%d still alive" % alive), True, tags)
    if "raised" in box:
        tags.append("outcome:raised")
        return Verdict(True, "", True, tags)
    tags.append("outcome:returned")
    res = box.get("result")
    # what was returned must come from the problem: subset of the solutions (enumeration) / a solution (optimisation)
    from vlib.ref import violated_constraints

    if case["op"] == "enum":
        for v in res:
            if violated_constraints(pc, v):
                return Verdict(False, "returned %s which is not a solution (%s)" % (list(v), what), True, tags)
        if len(set(res)) != len(res):
            return Verdict(False, "returned duplicated solutions after a worker died (%s)" % what, True, tags)
    elif res is not None and violated_constraints(pc, res):
        return Verdict(False, "returned %s which is not a solution (%s)" % (list(res), what), True, tags)
    return Verdict(True, "", True, tags)


def all_cases(tier, seed):
    big = tier != "quick"
    variants = [(3, 3, "none"), (3, 4, "alldifferent"), (4, 3, "leq"), (2, 5, "none")]
    cases = []
    i = 0
    for k in range(1, 5 if big else 4):
        for victim in range(k):
            for point in [0, 1, 2, "marker"] + ([4] if big else []):
                for kind in KINDS:
                    for op in ("enum", "min", "max"):
                        n, w, cons = variants[(seed + i) % len(variants)]
                        i += 1
                        cases.append({"n": n, "w": max(w, k), "cons": cons, "k": k, "victims": [[victim, point, kind]], "op": op})
    # fault sequences: two workers die
    for k in (2, 3, 4) if big else (3,):
        for a in range(k):
            for b in range(a + 1, k):
                for pa, pb_ in ((0, "marker"), (1, 1), ("marker", 0)):
                    for op in ("enum", "min"):
                        n, w, cons = variants[(seed + i) % len(variants)]
                        i += 1
                        cases.append({"n": n, "w": max(w, k), "cons": cons, "k": k, "victims": [[a, pa, KINDS[i % 3]], [b, pb_, KINDS[(i + 1) % 3]]], "op": op})
    # the solver object already served fault-free calls (same solvers, same parent object)
    for k in (1, 2, 3):
        for victim in {0, k - 1}:
            for point in (0, "marker"):
                for kind in KINDS:
                    for op in ("enum", "min"):
                        n, w, cons = variants[(seed + i) % len(variants)]
                        i += 1
                        cases.append({"n": n, "w": max(w, k), "cons": cons, "k": k, "victims": [[victim, point, kind]], "op": op, "earlier_calls": 1 + i % 2})
    # control: no fault at all must return the full result (guards the harness itself)
    for k in (1, 2, 3):
        cases.append({"n": 3, "w": 3, "cons": "none", "k": k, "victims": [], "op": "enum"})
    return cases


def check_control(case):
    pc, box, blocked, elapsed, alive, nworkers = run_case(case)
    if blocked or "raised" in box:
        return Verdict(False, "fault-free control run did not return normally (%s)" % (box.get("raised") or "blocked"), False, ["control"])
    from vlib.ref import brute_force

    sols, _ = brute_force(pc)
    if sorted(box["result"]) != sorted(v for _, v in sols):
        return Verdict(False, "fault-free control run returned %d of %d solutions" % (len(box["result"]), len(sols)), False, ["control"])
    return Verdict(True, "", False, ["control"])


META = {
    "level": "fault_enumeration",
    "rule": "cases = enumerated faults with real forked processes: number of workers (1..3, thorough 1..4) x victim x death point (before the first message, after 1 / 2 (/4) messages, just before the completion marker) x "
    "kind (os._exit, uncaught exception, SIGKILL) x operation (enumerate, minimise, maximise), plus sequences of two dying workers and fault-free controls; oracle = the caller's call returns (then everything returned is a solution, "
    "no duplicates) or raises within %d s (fault-free: well under a second); every case has a death before completion, so every case is non-trivial; distinct by the tuple (workers, victims, op)" % int(DEADLINE_S),
    "exhaustive_part": "the fault space described in the rule is enumerated completely for the stated numbers of workers",
    "assumptions": ["'does not block forever' is observed as 'returns or raises within the deadline'; the deadline is 40x the fault-free duration", "death in the middle of a pipe write (truncated message) is not injected"],
}
REPLAY_MODE = "J"


def jobs(tier):
    return [{"name": "faults-J", "mode": "J", "shards": 16, "case_timeout": 300, "timeout": 3000}]


def run(job, shard, nshards, seed, tier):
    from vlib.run import Recorder, case_hash

    rec = Recorder()
    cases = all_cases(tier, seed)
    journal = os.environ.get("VERIF_JOURNAL")
    import json

    for i, case in enumerate(cases):
        if i % nshards != shard:
            continue
        if journal:
            with open(journal, "w") as jf:
                json.dump({"t": time.time(), "case": case}, jf)
        v = check(case) if case["victims"] else check_control(case)
        rec.record(case, v)
        if not v.ok:
            rec.failures.append({"case": case, "msg": v.msg})
            if len(rec.failures) >= 2:
                break
    if journal:
        open(journal, "w").write("{}")
    return rec.result()


def replay(case):
    return check(case) if case["victims"] else check_control(case)
