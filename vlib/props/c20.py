"""
C20 — shipped models yield only valid combinatorial objects, with the known counts (DESIGN.md 4).

Case: {"model": name, "args": [...], "cfg": {"cons","var","dom"} (cons may be "golomb", var/dom may be the cost heuristics for tsp),
       "what": "count" | "first" | "opt", "mp": k (0 = one solver)}
"""

import math
from functools import lru_cache

from hypothesis import strategies as st

from vlib import models as M
from vlib import nx
from vlib.run import EngineError, Verdict, engine


def build(model, args):
    if model == "queens":
        from nucs.examples.queens.queens_problem import QueensProblem as C
    elif model == "latin_square":
        from nucs.problems.latin_square_problem import LatinSquareProblem

        return LatinSquareProblem(list(range(args[0])))
    elif model == "latin_givens":
        from nucs.problems.latin_square_problem import LatinSquareProblem

        return LatinSquareProblem(list(args[0]), [list(r) for r in args[1]])
    elif model == "latin_square_rc":
        from nucs.problems.latin_square_problem import LatinSquareRCProblem as C
    elif model == "qg5":
        from nucs.examples.quasigroup.quasigroup_problem import Quasigroup5Problem as C
    elif model == "magic_square":
        from nucs.examples.magic_square.magic_square_problem import MagicSquareProblem as C
    elif model == "magic_sequence":
        from nucs.examples.magic_sequence.magic_sequence_problem import MagicSequenceProblem as C
    elif model == "golomb":
        from nucs.examples.golomb.golomb_problem import GolombProblem as C
    elif model == "bibd":
        from nucs.examples.bibd.bibd_problem import BIBDProblem as C
    elif model == "schur":
        from nucs.examples.schur_lemma.schur_lemma_problem import SchurLemmaProblem as C
    elif model == "sts":
        from nucs.examples.sports_tournament_scheduling.sports_tournament_scheduling_problem import SportsTournamentSchedulingProblem as C
    elif model == "knapsack":
        from nucs.examples.knapsack.knapsack_problem import KnapsackProblem as C
    elif model == "circuit":
        from nucs.problems.circuit_problem import CircuitProblem as C
    elif model == "tsp":
        from nucs.examples.tsp.tsp_problem import TSPProblem

        return TSPProblem([list(r) for r in args[0]])
    elif model == "sudoku":
        from nucs.examples.sudoku.sudoku_problem import SudokuProblem

        return SudokuProblem([list(r) for r in M.SUDOKUS[args[0]]])
    elif model == "alpha":
        from nucs.examples.alpha.alpha_problem import AlphaProblem as C
    elif model == "donald":
        from nucs.examples.donald.donald_problem import DonaldProblem as C
    else:
        raise ValueError(model)
    return C(*args)


_GOLOMB_ALG = {}


def golomb_alg():
    if "idx" not in _GOLOMB_ALG:
        from nucs.examples.golomb import golomb_problem as G
        from nucs.solvers.consistency_algorithms import register_consistency_algorithm

        if nx.INTERPRETED:
            from vlib import interpose

            interpose.install()
            interpose.wrap_custom_bc_callers(G)
        _GOLOMB_ALG["idx"] = register_consistency_algorithm(G.golomb_consistency_algorithm)
    return _GOLOMB_ALG["idx"]


def make_solver(pb, model, args, cfg):
    from nucs.solvers.backtrack_solver import BacktrackSolver

    depth = sum(max(0, d[1] - d[0]) for d in pb.shr_domains_lst)
    height = min(60000, 2 * depth + 8)
    kw = {}
    cons = cfg["cons"]
    if cons == "golomb":
        kw["consistency_alg_idx"] = golomb_alg()
    else:
        kw["consistency_alg_idx"] = nx.CONS_ALG[cons]
    if model == "tsp":
        n = len(args[0])
        kw["decision_domains"] = list(range(n))
        if cfg["var"] == "max_regret":
            kw["var_heuristic_params"] = [list(r) for r in args[0]]
        if cfg["dom"] == "min_cost":
            kw["dom_heuristic_params"] = [list(r) for r in args[0]]
    if model == "magic_sequence" and cfg.get("decision") == "reversed":
        kw["decision_domains"] = list(range(args[0] - 1, -1, -1))
    return BacktrackSolver(pb, var_heuristic_idx=nx.VAR_HEUR[cfg["var"]], dom_heuristic_idx=nx.DOM_HEUR[cfg["dom"]], stack_max_height=height, log_level="CRITICAL", **kw)


def validator(model, args):
    if model == "queens":
        return lambda s: M.v_queens(s, args[0])
    if model == "latin_square":
        return lambda s: M.v_latin_square(s, list(range(args[0])))
    if model == "latin_givens":
        return lambda s: M.v_latin_square(s, list(args[0])) or _givens_kept(s, args[0], args[1])
    if model == "latin_square_rc":
        return lambda s: M.v_latin_rc(s, args[0])
    if model == "qg5":
        return lambda s: M.v_qg5(s, args[0], args[1])
    if model == "magic_square":
        return lambda s: M.v_magic_square(s, args[0], args[1])
    if model == "magic_sequence":
        return lambda s: M.v_magic_sequence(s, args[0])
    if model == "golomb":
        return lambda s: M.v_golomb(s, args[0])
    if model == "bibd":
        return lambda s: M.v_bibd(s, *args[:5])
    if model == "schur":
        return lambda s: M.v_schur(s, args[0])
    if model == "sts":
        return lambda s: M.v_sts(s, args[0])
    if model == "knapsack":
        return lambda s: M.v_knapsack(s, *args)
    if model == "circuit":
        return lambda s: M.v_circuit(list(s))
    if model == "tsp":
        return lambda s: M.v_tsp(s, args[0])
    if model == "sudoku":
        return lambda s: M.v_sudoku(s, M.SUDOKUS[args[0]])
    if model == "alpha":
        return lambda s: M.v_alpha(list(s))
    if model == "donald":
        return lambda s: M.v_donald(list(s))
    raise ValueError(model)


def _givens_kept(sol, colors, givens):
    """None when every given cell (a value that is one of the colours) holds its given, else a description."""
    n = len(colors)
    for i in range(n):
        for j in range(n):
            g = givens[i][j]
            if g in colors and int(sol[i * n + j]) != g:
                return "cell (%d,%d) holds %d, the given is %d" % (i, j, int(sol[i * n + j]), g)
    return None


def count_latin_givens(colors, givens):
    """Latin squares over the colours that agree with the givens, row by row over the permutations of the colours."""
    from itertools import permutations

    n = len(colors)
    rows = [[p for p in permutations(colors) if all(givens[i][j] not in colors or p[j] == givens[i][j] for j in range(n))] for i in range(n)]

    def rec(i, used):
        if i == n:
            return 1
        t = 0
        for p in rows[i]:
            if all(p[j] not in used[j] for j in range(n)):
                t += rec(i + 1, [used[j] | {p[j]} for j in range(n)])
        return t

    return rec(0, [frozenset() for _ in range(n)])


@lru_cache(maxsize=None)
def _cached(fn, *a):
    return getattr(M, fn)(*a)


def expected(model, args):
    """('count', n) | ('opt', var index, direction, value) | ('sat', bool) | None — from the literature or brute force."""
    if model == "queens":
        return ("count", M.QUEENS[args[0]])
    if model in ("latin_square", "latin_square_rc"):
        return ("count", M.LATIN[args[0]])
    if model == "latin_givens":
        return ("count", count_latin_givens(list(args[0]), [list(r) for r in args[1]]))
    if model == "qg5":
        n, sym = args
        if sym:
            return ("count", M.QG5_SB[n]) if n in M.QG5_SB else ("sat", _cached("count_qg5", n) > 0) if n <= 5 else None
        if n <= 5:
            return ("count", _cached("count_qg5", n))
        return ("sat", M.QG5_SB[n] > 0) if n in M.QG5_SB else None
    if model == "magic_square":
        n, sym = args
        return ("count", M.MAGIC_SQUARES[n] // 8 if sym else M.MAGIC_SQUARES[n])
    if model == "magic_sequence":
        return ("count", _cached("count_magic_sequences", args[0]))
    if model == "golomb":
        n = args[0]
        return ("opt", n - 2, "min", M.GOLOMB[n]) if n in M.GOLOMB else ("sat", True)
    if model == "bibd":
        v, b, r, k, l, sym = args
        if sym:
            return ("sat", _cached("count_bibd", v, b, r, k, l) > 0) if v * b <= 24 else ("sat", True)
        return ("count", _cached("count_bibd", v, b, r, k, l)) if v * b <= 24 else ("sat", True)
    if model == "schur":
        n, sym = args
        c = _cached("count_schur", n)
        return ("sat", c > 0) if sym else ("count", c)
    if model == "sts":
        n, sym = args
        if n == 4:
            c = _cached("count_sts_oriented", 4)
            return ("sat", c > 0) if sym else ("count", c)
        return ("sat", True)
    if model == "knapsack":
        return ("opt", len(args[0]), "max", M.best_knapsack(*args))
    if model == "circuit":
        return ("count", math.factorial(args[0] - 1))
    if model == "tsp":
        return ("opt", 2 * len(args[0]), "min", M.best_tsp(args[0]))
    if model in ("sudoku", "alpha", "donald"):
        return ("count", 1)
    return None


def check(case):
    model, args, cfg, what, mp = case["model"], case["args"], case["cfg"], case["what"], case.get("mp", 0)
    tags = ["model:" + model, "cfg:%s/%s/%s" % (cfg["cons"], cfg["var"], cfg["dom"]), "what:" + what] + (["mp:%d" % mp] if mp else [])
    if len(args) and isinstance(args[-1], bool):
        tags.append("symmetry-breaking:%s" % args[-1])
    try:
        pb = engine(build, model, args)
    except EngineError as e:
        return Verdict(False, "%s%s: construction raised %s" % (model, args, e.bucket), False, tags)
    valid = validator(model, args)
    exp = expected(model, args)
    where = "%s%s [%s/%s/%s%s]" % (model, str(args)[:80], cfg["cons"], cfg["var"], cfg["dom"], " mp=%d" % mp if mp else "")
    sols = []
    value = None
    try:
        if mp:
            from vlib import mpfake

            subs = engine(pb.split, mp, 0)
            solvers = [engine(make_solver, sp, model, args, cfg) for sp in subs]
            with mpfake.patched(len(solvers), case.get("schedule", [])) as t:
                ms = mpfake.MultiprocessingSolver(solvers, log_level="CRITICAL")
                if what == "opt":
                    r = engine(ms.minimize if exp[2] == "min" else ms.maximize, exp[1])
                    value = None if r is None else nx.vec(r)
                else:
                    sols = [nx.vec(s) for s in engine(lambda: list(ms.solve()))]
            stats = None
        elif case.get("split"):
            # the union of the enumerations of the sub-problems of split(), each by its own sequential solver
            k, var = case["split"]
            for sp in engine(pb.split, k, var % len(pb.dom_indices_lst)):
                sols += [nx.vec(s) for s in engine(engine(make_solver, sp, model, args, cfg).find_all)]
            stats = None
            tags.append("split-enumeration")
        else:
            solver = engine(make_solver, pb, model, args, cfg)
            if what == "opt":
                r = engine(solver.minimize if exp[2] == "min" else solver.maximize, exp[1])
                value = None if r is None else nx.vec(r)
            elif what == "first":
                it = solver.solve()
                r = engine(lambda: next(it, None))
                sols = [] if r is None else [nx.vec(r)]
            else:
                sols = [nx.vec(s) for s in engine(solver.find_all)]
            stats = solver.get_statistics()
    except EngineError as e:
        return Verdict(False, "%s: the run raised %s" % (where, e.bucket), True, tags)
    except BaseException as e:
        if type(e).__name__ != "FakeDeadlock":
            raise
        return Verdict(False, "%s: the multiprocessing solver waits for a message no worker will send" % where, True, tags)
    for s in sols + ([value] if value is not None else []):
        why = valid(list(s))
        if why:
            return Verdict(False, "%s returned %s... which is not a valid object: %s" % (where, list(s)[:30], why), True, tags)
    if what == "count" and len(set(sols)) != len(sols):
        return Verdict(False, "%s returned a solution twice" % where, True, tags)
    nt = bool(sols) or value is not None or (stats is not None and stats["SOLVER_BACKTRACK_NB"] > 0)
    if exp is None:
        return Verdict(True, "", nt, tags + ["no-known-count"])
    if what == "opt":
        if value is None:
            return Verdict(False, "%s found no solution, the known optimum is %d" % (where, exp[3]), True, tags)
        if value[exp[1]] != exp[3]:
            return Verdict(False, "%s returned objective value %d, the known optimum is %d" % (where, value[exp[1]], exp[3]), True, tags)
    elif what == "count":
        if model == "golomb":
            c = _cached("count_golomb", args[0], bool(args[1]))
            if len(sols) != c:
                return Verdict(False, "%s enumerated %d rulers, brute force finds %d%s" % (where, len(sols), c, " up to reflection" if args[1] else ""), True, tags)
        if exp[0] == "count" and len(sols) != exp[1]:
            return Verdict(False, "%s enumerated %d solutions, the known count is %d" % (where, len(sols), exp[1]), True, tags)
        if exp[0] == "sat" and bool(sols) != exp[1]:
            return Verdict(False, "%s is %s, the base problem is %s" % (where, "satisfiable" if sols else "unsatisfiable", "satisfiable" if exp[1] else "unsatisfiable"), True, tags)
        if exp[0] == "opt" and sols:
            best = min(s[exp[1]] for s in sols) if exp[2] == "min" else max(s[exp[1]] for s in sols)
            if best != exp[3]:
                return Verdict(False, "%s: best objective among all solutions is %d, known optimum %d" % (where, best, exp[3]), True, tags)
    elif what == "first":
        sat = exp[1] > 0 if exp[0] == "count" else exp[1] if exp[0] == "sat" else True
        if bool(sols) != bool(sat):
            return Verdict(False, "%s: first solution %s, but the problem is %s" % (where, "found" if sols else "not found", "satisfiable" if sat else "unsatisfiable"), True, tags)
    return Verdict(True, "", nt, tags)


# ----------------------------------------------------------------------------------------------
# instances within reach: (model, args, whats, heavy)   heavy = only compiled / thorough
# ----------------------------------------------------------------------------------------------
def instances(tier, interpreted):
    big = tier != "quick"
    out = []

    def add(model, args, whats, heavy=False):
        if interpreted and heavy:
            return
        out.append((model, args, whats, heavy))

    for n in range(1, 7):
        add("queens", [n], ["count", "first"])
    for n in (7, 8) + ((9,) if big else ()):
        add("queens", [n], ["count", "first"], heavy=True)
    for n in (1, 2, 3):
        add("latin_square", [n], ["count"])
        add("latin_square_rc", [n], ["count"])
    add("latin_square", [4], ["count"], heavy=True)
    for _ in range(4):
        add("latin_givens", None, ["count"])  # colours and givens are drawn (c20_case)
    add("latin_square_rc", [4], ["count"], heavy=True)
    for n in (3, 4, 5):
        for sym in (True, False):
            add("qg5", [n, sym], ["count"], heavy=(n == 5))
    for n in (7, 8) + ((9,) if big else ()):
        add("qg5", [n, True], ["count"], heavy=True)
    add("qg5", [7, False], ["first"], heavy=True)
    for sym in (True, False):
        add("magic_square", [3, sym], ["count"])
    if big:
        add("magic_square", [4, True], ["count"], heavy=True)
    for n in range(1, 9):
        add("magic_sequence", [n], ["count"], heavy=(n > 6))
    for n in (9, 10, 12) if big else (9,):
        add("magic_sequence", [n], ["count"], heavy=True)
    for n in (2, 3, 4, 5):
        for sym in (True, False):
            add("golomb", [n, sym], ["opt"])
    for n in (2, 3, 4):
        for sym in (True, False):
            add("golomb", [n, sym], ["count"])
    for sym in (True, False):
        add("golomb", [5, sym], ["count"], heavy=True)
    for n in (6, 7) + ((8,) if big else ()):
        add("golomb", [n, True], ["opt"], heavy=True)
    add("golomb", [6, False], ["opt"], heavy=True)
    for n in (15, 16, 17):  # around the end of the model's table of known optimal lengths
        add("golomb", [n, True], ["first"], heavy=True)
    for a in ([3, 3, 2, 2, 1], [4, 6, 3, 2, 1], [4, 4, 3, 3, 2], [3, 4, 2, 2, 1]):
        for sym in (True, False):
            add("bibd", a + [sym], ["count"])
    add("bibd", [7, 7, 3, 3, 1, True], ["first"], heavy=True)
    add("bibd", [6, 10, 5, 3, 2, True], ["first"], heavy=True)
    for n in range(1, 8):
        for sym in (True, False):
            add("schur", [n, sym], ["count"])
    for n in (9, 13) if big else (9,):
        add("schur", [n, True], ["count"], heavy=True)
    add("schur", [9, False], ["count"], heavy=True)
    add("sts", [4, False], ["count"])
    add("sts", [4, True], ["count"])
    add("sts", [6, True], ["first"], heavy=True)
    add("sts", [6, False], ["first"], heavy=True)
    if big:
        add("sts", [8, True], ["first"], heavy=True)
    add("knapsack", [[3, 4, 5, 2], [2, 3, 4, 1], 6], ["opt", "count"])
    add("knapsack", [[5, 7, 3, 9, 4, 6, 8], [3, 5, 2, 6, 3, 4, 5], 13], ["opt", "count"])
    add("knapsack", [[40, 40, 38, 38, 36, 36, 34, 34, 32, 32, 30, 30], [40, 40, 38, 38, 36, 36, 34, 34, 32, 32, 30, 30], 75], ["opt"], heavy=True)
    for n in (2, 3, 4, 5):
        add("circuit", [n], ["count"])
    add("circuit", [6], ["count"], heavy=True)
    add("tsp", [[[0, 2, 1, 2], [2, 0, 2, 1], [1, 2, 0, 2], [2, 1, 2, 0]]], ["opt"])
    add("sudoku", [0], ["count"], heavy=True)
    add("sudoku", [1], ["count"], heavy=True)
    add("alpha", [], ["count"], heavy=True)
    add("donald", [], ["count"], heavy=True)
    return out


@st.composite
def c20_case(draw, tier, interpreted):
    model, args, whats, heavy = draw(st.sampled_from(instances(tier, interpreted)))
    what = draw(st.sampled_from(whats))
    if heavy or (interpreted and model in ("golomb", "qg5", "sts", "bibd", "magic_square")):
        # the larger instances only with configurations that solve them in seconds (time is not a correctness signal)
        cfg = {"cons": draw(st.sampled_from(["bc", "bc", "shaving"])), "var": draw(st.sampled_from(["first", "smallest"])), "dom": draw(st.sampled_from(["min", "max", "split_low"]))}
        if model in ("golomb", "knapsack", "magic_sequence", "schur", "bibd"):
            cfg["var"] = "first"
        if model in ("golomb", "magic_sequence"):
            cfg["dom"] = "min"
    else:
        cfg = {"cons": draw(st.sampled_from(["bc", "bc", "shaving"])), "var": draw(st.sampled_from(["first", "smallest", "greatest"])), "dom": draw(st.sampled_from(["min", "max", "split_low", "mid"]))}
    if model == "golomb" and draw(st.booleans()):
        cfg["cons"] = "golomb"
    if model == "golomb" and args[0] >= 15 and cfg["cons"] == "shaving":
        cfg["cons"] = "bc"  # shaving 105+ distance variables takes minutes per node
    if model == "tsp":
        n = draw(st.integers(3, 6 if tier == "quick" else 7))
        mat = [[0 if i == j else draw(st.integers(1, 9)) for j in range(n)] for i in range(n)]
        if draw(st.booleans()):
            mat = [[mat[min(i, j)][max(i, j)] if i != j else 0 for j in range(n)] for i in range(n)]
        args = [mat]
        if draw(st.booleans()):
            cfg["var"], cfg["dom"] = "max_regret", "min_cost"
    if model == "latin_givens":
        # a latin square over colours base..base+n-1 (0-based, 1-based as in sudoku, negative, elsewhere) with some cells given;
        # "any value different from the possible colors is used as a wildcard"
        n = draw(st.integers(2, 4))
        base = draw(st.sampled_from([0, 0, 0, 1, -2, 5]))
        colors = list(range(base, base + n))
        wild = draw(st.sampled_from([w for w in (0, -1, base - 1, base + n, 99) if w not in colors]))
        pi, sigma = draw(st.permutations(list(range(n)))), draw(st.permutations(list(range(n))))
        givens = []
        for i in range(n):
            row = []
            for j in range(n):
                k = draw(st.integers(0, 9))
                # mostly cells of one latin square (satisfiable), sometimes an arbitrary colour
                row.append(colors[(pi[i] + sigma[j]) % n] if k < 4 else draw(st.sampled_from(colors)) if k == 4 else wild)
            givens.append(row)
        args = [colors, givens]
    if model == "knapsack" and draw(st.integers(0, 2)) > 0:
        n = draw(st.integers(2, 7 if tier == "quick" else 10))
        weights = [draw(st.integers(1, 30)) for _ in range(n)]
        volumes = [draw(st.integers(1, 9)) for _ in range(n)]
        args = [weights, volumes, draw(st.integers(0, sum(volumes) + 1))]
        whats = ["opt", "count"]
        what = draw(st.sampled_from(whats))
    if model == "magic_sequence" and draw(st.booleans()):
        cfg["decision"] = "reversed"
    case = {"model": model, "args": args, "cfg": cfg, "what": what}
    huge = model == "golomb" and what == "count" and args[0] >= 5  # > 10^5 solutions: more messages than the in-process transport accepts
    if what in ("count", "opt") and model not in ("tsp",) and not huge and draw(st.integers(0, 3)) == 0:
        case["mp"] = draw(st.integers(1, 3))
        case["schedule"] = draw(st.lists(st.integers(0, 2), max_size=10))
    if model == "golomb" and what == "count" and "mp" not in case and draw(st.booleans()):
        case["split"] = [draw(st.integers(2, 7)), draw(st.integers(0, 9))]
    return case


META = {
    "level": "exploration",
    "rule": "cases = shipped model (queens, latin square with and without given cells over 0-based / 1-based / other colours, latin square RC, quasigroup QG5, magic square, magic sequence, Golomb incl. its own consistency algorithm, BIBD, Schur, sports tournament scheduling, knapsack, circuit, TSP on generated "
    "matrices, sudoku, alpha, donald) x instance size within reach x symmetry breaking on/off x configuration (BC / shaving / Golomb's algorithm, variable and value heuristics, 1..3 workers over split()) x what is asked "
    "(all solutions / first solution / optimum); oracle = definition-level validators written from the problem statements, counts and optima from the literature or from independent brute force; "
    "non-trivial = instance with >= 1 solution returned, or proven empty with >= 1 backtrack; distinct by SHA-1 of the canonical case",
}
REPLAY_MODE = "J"
EXAMPLES = {"quick": (250, 80), "thorough": (2000, 400)}


def jobs(tier):
    return [
        {"name": "hyp-J", "mode": "J", "shards": 12, "case_timeout": 240, "timeout": 7000, "slow_ok": True},
        {"name": "hyp-I", "mode": "I", "shards": 4, "case_timeout": 600, "timeout": 7000, "slow_ok": True},
    ]


def run(job, shard, nshards, seed, tier):
    from vlib.run import Recorder, drive, shard_seed

    rec = Recorder()
    n = EXAMPLES[tier][0 if job["mode"] == "J" else 1]
    drive(c20_case(tier, job["mode"] == "I"), check, rec, shard_seed(seed, shard, 71 if job["mode"] == "J" else 72), n, shrink=False)
    return rec.result()


def replay(case):
    return check(case)
