"""
C09 — branching partitions the chosen domain; backtracking restores the saved state (DESIGN.md 4).

Model-based check of histories: the shipped value heuristics and backtrack() are called directly on real
stack arrays (both modes); a Python list of frames is the reference model.

Case (JSON):
  {"doms": [[lo,hi],...], "nprops": P, "triggers": [[mask per prop] per domain], "costs": [[...]...]|null,
   "height": H, "ops": [["branch", heuristic, k] | ["prune", k, side, amount] | ["entail", p] | ["backtrack"]]}
An op that is not enabled in the current state (branch without a non-instantiated domain or without room
on the stack, prune of a singleton) is skipped; k selects among the enabled domains (k mod #enabled).
"""

import numpy as np
from hypothesis import strategies as st

from vlib import nx
from vlib.run import EngineError, Verdict, engine_direct as engine

EV_MIN, EV_MAX, EV_GROUND = 1, 2, 4
HEUR = ["min", "max", "split_low", "mid", "min_cost"]

import importlib  # noqa: E402

M_CP = importlib.import_module("nucs.solvers.choice_points")


def ev_names(e):
    return "|".join(n for n, b in (("MIN", 1), ("MAX", 2), ("GROUND", 4)) if e & b) or "0"


def required(before, after):
    ev = 0
    if after[0] > before[0]:
        ev |= EV_MIN
    if after[1] < before[1]:
        ev |= EV_MAX
    if after[0] == after[1] and before[0] != before[1]:
        ev |= EV_GROUND
    return ev


class Real:
    def __init__(self, case):
        D, Pn, Hh = len(case["doms"]), case["nprops"], case["height"]
        self.shr = np.zeros((Hh, D, 2), dtype=np.int32)
        self.flags = np.zeros((Hh, max(Pn, 0)), dtype=np.bool_)
        self.upd = np.zeros((Hh, 2), dtype=np.uint16)
        self.top = np.zeros((1,), dtype=np.uint16)
        self.triggered = np.zeros(Pn, dtype=np.bool_)
        self.triggers = np.array(case["triggers"], dtype=np.uint8).reshape((D, Pn))
        self.stats = np.zeros(13, dtype=np.int64)
        # garbage in the unused levels so that a read of a stale level is visible
        self.shr[:] = 77
        self.flags[:] = True
        M_CP.cp_init(self.shr, self.flags, self.upd, self.top, np.array(case["doms"], dtype=np.int32))
        costs = case.get("costs")
        self.costs = np.array(costs, dtype=np.int64) if costs else np.zeros((D, 1), dtype=np.int64)


def check(case):
    D, Pn, Hh = len(case["doms"]), case["nprops"], case["height"]
    tags = []
    r = Real(case)
    # model
    frames = [([list(d) for d in case["doms"]], [True] * Pn)]  # level 0
    pending = []  # for each level below the top: (dom index, required events)
    n_branch = n_back = 0
    singleton_branch = False
    nt_hist = False
    for op in case["ops"]:
        top = len(frames) - 1
        if int(r.top[0]) != top:
            return Verdict(False, "stack height is %d, the model expects %d (before %s)" % (int(r.top[0]), top, op), True, tags)
        doms, flags = frames[top]
        if op[0] == "branch":
            h = op[1]
            open_ = [i for i in range(D) if doms[i][0] < doms[i][1]]
            if h == "min_cost" and case.get("costs") is None:
                continue
            if not open_ or top + 2 >= Hh:
                continue
            d = open_[op[2] % len(open_)]
            a, b = doms[d]
            below = r.shr[:top].copy()
            below_flags = r.flags[:top].copy()
            below_upd = r.upd[:top].copy()
            try:
                events = int(engine(nx.H.DOM_HEURISTIC_FCTS[nx.DOM_HEUR[h]], r.costs, r.shr, r.flags, r.upd, r.top, d))
            except EngineError as e:
                return Verdict(False, "%s on [%d,%d] raised %s" % (h, a, b, e.bucket), True, tags)
            n_branch += 1
            tags.append("branch:" + h)
            tags.append("width:%s" % ("2" if b - a == 1 else "3" if b - a == 2 else "4" if b - a == 3 else ">=5"))
            ntop = int(r.top[0])
            where = "%s on domain %d=[%d,%d] at level %d" % (h, d, a, b, top)
            if not (top < ntop <= top + 2):
                return Verdict(False, "%s: stack height went from %d to %d" % (where, top, ntop), True, tags)
            ranges = [[int(r.shr[l, d, 0]), int(r.shr[l, d, 1])] for l in range(top, ntop + 1)]
            # partition
            if any(lo > hi for lo, hi in ranges):
                return Verdict(False, "%s: empty sub-range among %s" % (where, ranges), True, tags)
            cover = sorted(v for lo, hi in ranges for v in range(lo, hi + 1))
            if cover != list(range(a, b + 1)):
                return Verdict(False, "%s: sub-ranges %s are not a partition of [%d,%d]" % (where, ranges, a, b), True, tags)
            # everything else untouched
            for l in range(top, ntop + 1):
                for i in range(D):
                    if i != d and [int(r.shr[l, i, 0]), int(r.shr[l, i, 1])] != doms[i]:
                        return Verdict(False, "%s: domain %d at level %d is %s, was %s" % (where, i, l, r.shr[l, i].tolist(), doms[i]), True, tags)
                if [bool(x) for x in r.flags[l]] != flags:
                    return Verdict(False, "%s: enabled flags at level %d are %s, were %s" % (where, l, r.flags[l].tolist(), flags), True, tags)
            if not (np.array_equal(below, r.shr[:top]) and np.array_equal(below_flags, r.flags[:top]) and np.array_equal(below_upd, r.upd[:top])):
                return Verdict(False, "%s: levels below the current one were modified" % where, True, tags)
            # announcements
            need = required([a, b], ranges[-1])
            if need & ~events:
                return Verdict(False, "%s: branch taken %s needs events %s, %s announced" % (where, ranges[-1], ev_names(need), ev_names(events)), True, tags)
            if ranges[-1][0] == ranges[-1][1]:
                singleton_branch = True
            for l in range(top, ntop):
                rec_d, rec_e = int(r.upd[l, 0]), int(r.upd[l, 1])
                need = required([a, b], ranges[l - top])
                if rec_d != d:
                    return Verdict(False, "%s: alternative at level %d is recorded for domain %d" % (where, l, rec_d), True, tags)
                if need & ~rec_e:
                    return Verdict(False, "%s: alternative %s at level %d needs events %s, %s recorded" % (where, ranges[l - top], l, ev_names(need), ev_names(rec_e)), True, tags)
            # update the model
            frames.pop()
            for l in range(top, ntop + 1):
                nd = [list(x) for x in doms]
                nd[d] = list(ranges[l - top])
                frames.append((nd, list(flags)))
                if l < ntop:
                    pending.append((d, required([a, b], ranges[l - top])))
        elif op[0] == "prune":
            open_ = [i for i in range(D) if doms[i][0] < doms[i][1]]
            if not open_:
                continue
            d = open_[op[1] % len(open_)]
            amount = 1 + op[3] % (doms[d][1] - doms[d][0])
            if op[2] == 0:
                doms[d][0] += amount
                r.shr[top, d, 0] += amount
            else:
                doms[d][1] -= amount
                r.shr[top, d, 1] -= amount
        elif op[0] == "entail":
            if Pn == 0:
                continue
            p = op[1] % Pn
            flags[p] = False
            r.flags[top, p] = False
        elif op[0] == "backtrack":
            r.triggered[:] = False
            before_all = (r.shr[: top + 1].copy(), r.flags[: top + 1].copy())
            bt0 = int(r.stats[9])
            try:
                ok = bool(engine(M_CP.backtrack, r.stats, r.flags, r.upd, r.top, r.triggered, r.triggers))
            except EngineError as e:
                return Verdict(False, "backtrack at level %d raised %s" % (top, e.bucket), True, tags)
            n_back += 1
            if top == 0:
                if ok:
                    return Verdict(False, "backtrack succeeded although no alternative is left", True, tags)
                if int(r.top[0]) != 0 or not np.array_equal(before_all[0], r.shr[:1]) or not np.array_equal(before_all[1], r.flags[:1]):
                    return Verdict(False, "failed backtrack modified the state", True, tags)
                tags.append("backtrack:empty")
                continue
            if not ok:
                return Verdict(False, "backtrack failed at level %d although an alternative is left" % top, True, tags)
            frames.pop()
            d, need = pending.pop()
            ntop = int(r.top[0])
            if ntop != top - 1:
                return Verdict(False, "backtrack moved the stack from level %d to %d" % (top, ntop), True, tags)
            mdoms, mflags = frames[-1]
            cur = [[int(x[0]), int(x[1])] for x in r.shr[ntop]]
            if cur != mdoms:
                return Verdict(False, "after backtrack to level %d the domains are %s, saved were %s" % (ntop, cur, mdoms), True, tags)
            if [bool(x) for x in r.flags[ntop]] != mflags:
                return Verdict(False, "after backtrack to level %d the enabled flags are %s, saved were %s" % (ntop, r.flags[ntop].tolist(), mflags), True, tags)
            if int(r.stats[9]) != bt0 + 1:
                return Verdict(False, "backtrack counter moved by %d" % (int(r.stats[9]) - bt0), True, tags)
            for p in range(Pn):
                if mflags[p] and (int(r.triggers[d, p]) & need) and not r.triggered[p]:
                    return Verdict(
                        False,
                        "after backtrack to level %d (domain %d now %s, events needed %s) the enabled watcher %d (mask %s) was not woken"
                        % (ntop, d, mdoms[d], ev_names(need), p, ev_names(int(r.triggers[d, p]))),
                        True,
                        tags,
                    )
            tags.append("backtrack:ok")
            if n_branch >= 2:
                nt_hist = True
    return Verdict(True, "", nt_hist or singleton_branch, tags)


# ----------------------------------------------------------------------------------------------
@st.composite
def c09_case(draw, tier):
    big = tier != "quick"
    D = draw(st.integers(1, 4))
    costy = draw(st.integers(0, 2)) == 0
    doms = []
    for _ in range(D):
        shape = draw(st.sampled_from(["w2", "w3", "small", "wide", "single"]))
        lo = draw(st.integers(0, 4)) if costy else draw(st.integers(-6, 4))
        w = {"w2": 1, "w3": 2, "small": draw(st.integers(1, 4)), "wide": draw(st.integers(4, 12 if big else 9)), "single": 0}[shape]
        doms.append([lo, lo + w])
    Pn = draw(st.integers(0, 4))
    triggers = [[draw(st.sampled_from([0, 1, 2, 3, 4, 4, 1, 2])) for _ in range(Pn)] for _ in range(D)]
    costs = None
    if costy:
        width = max(hi for _, hi in doms) + 1
        mode = draw(st.sampled_from(["tied", "random", "rowtied"]))
        costs = []
        for _ in range(D):
            if mode == "tied":
                costs.append([1] * width)
            elif mode == "rowtied":
                costs.append([draw(st.integers(1, 3))] * width)
            else:
                costs.append([draw(st.integers(1, 4)) for _ in range(width)])
    height = draw(st.sampled_from([4, 6, 10, 16, 30]))
    heur = HEUR if costy else HEUR[:4]
    op = st.one_of(
        st.tuples(st.just("branch"), st.sampled_from(heur), st.integers(0, 7)),
        st.tuples(st.just("branch"), st.sampled_from(heur), st.integers(0, 7)),
        st.tuples(st.just("prune"), st.integers(0, 7), st.integers(0, 1), st.integers(0, 5)),
        st.tuples(st.just("entail"), st.integers(0, 7)),
        st.tuples(st.just("backtrack")),
        st.tuples(st.just("backtrack")),
    )
    ops = [list(o) for o in draw(st.lists(op, min_size=1, max_size=40 if big else 25))]
    return {"doms": doms, "nprops": Pn, "triggers": triggers, "costs": costs, "height": height, "ops": ops}


def exhaustive_cases():
    """Every [a,b] within [-3,6] x every heuristic x cost families; then every alternative is visited by backtracking."""
    for a in range(-3, 7):
        for b in range(a + 1, 7):
            for h in HEUR:
                cost_fams = [None]
                if h == "min_cost":
                    if a < 0:
                        continue
                    width = b + 1
                    cost_fams = [
                        [[1] * width],
                        [[(v % 3) + 1 for v in range(width)]],
                        [[width - v for v in range(width)]],
                        [[1 + (v == (a + b) // 2) for v in range(width)]],
                        [[3 - (v == (a + b + 1) // 2) for v in range(width)]],
                    ]
                for costs in cost_fams:
                    for trig in ([[1], [2], [4]], [[3], [4], [1]]):
                        # one domain split, then prune, then walk through all alternatives
                        yield {
                            "doms": [[a, b], [0, 3]],
                            "nprops": 3,
                            "triggers": [[trig[0][0], trig[1][0], trig[2][0]], [3, 3, 3]],
                            "costs": None if costs is None else [costs[0] + [1] * max(0, 4 - len(costs[0])), [1] * max(len(costs[0]), 4)],
                            "height": 8,
                            "ops": [["branch", h, 0], ["entail", 1], ["prune", 1, 0, 0], ["backtrack"], ["prune", 0, 1, 0], ["backtrack"], ["backtrack"], ["backtrack"]],
                        }


META = {
    "level": "exploration",
    "rule": "cases = histories of branch(heuristic, domain) / prune / entail / backtrack operations on real stack arrays with a Python list-of-frames model "
    "(domain shapes: negative, width 2, width 3, odd/even, wide; cost tables with ties); exhaustive part = every [a,b] within [-3,6] x every value heuristic x cost-table families with all "
    "alternatives visited; non-trivial = a history with >= 1 successful backtrack after >= 2 branches, or a branch leaving a single value; distinct by SHA-1 of the canonical case",
    "exhaustive_part": "every domain [a,b] with -3<=a<b<=6 x 5 value heuristics x cost-table families, one branch followed by a walk through every alternative",
}
REPLAY_MODE = "I"
EXAMPLES = {"quick": (1500, 600), "thorough": (15000, 5000)}


def jobs(tier):
    return [
        {"name": "exh-I", "mode": "I", "shards": 1},
        {"name": "exh-J", "mode": "J", "shards": 1},
        {"name": "hyp-I", "mode": "I", "shards": 14},
        {"name": "hyp-J", "mode": "J", "shards": 8},
    ]


def run(job, shard, nshards, seed, tier):
    from vlib.run import Recorder, drive, shard_seed

    rec = Recorder()
    if job["name"].startswith("exh"):
        nt = 0
        for case in exhaustive_cases():
            v = check(case)
            rec.evaluations += 1
            for t in v.tags:
                rec.tag(t)
            if v.nontrivial:
                nt += 1
                if len(rec.samples) < 2 and nt % 97 == 1:
                    rec.samples.append(case)
            if not v.ok and len(rec.failures) < 3:
                rec.failures.append({"case": case, "msg": v.msg})
        res = rec.result()
        res["exhaustive_nontrivial"] = nt if job["mode"] == "I" else 0  # the same cases in both modes: counted once
        return res
    n = EXAMPLES[tier][0 if job["mode"] == "I" else 1]
    drive(c09_case(tier), check, rec, shard_seed(seed, shard, 3 if job["mode"] == "I" else 4), n, shrink_budget_s=60)
    return rec.result()


def replay(case):
    return check(case)
