"""
Adapter to the real nucs code of the working tree (the only module besides the property modules that
imports nucs).  Works in both execution modes; the mode is fixed by the environment of the worker
process (NUMBA_DISABLE_JIT set = interpreted, "mode I"; unset = compiled, "mode J").
"""

import logging
import os
import sys

_REPO = os.environ.get("NUCS_REPO", "/repo")
if _REPO not in sys.path:
    sys.path.insert(0, _REPO)

import numpy as np  # noqa: E402

logging.disable(logging.CRITICAL)

from nucs.constants import (  # noqa: E402
    MAX,
    MIN,
    PROBLEM_BOUND,
    PROBLEM_INCONSISTENT,
    PROBLEM_UNBOUND,
    PROP_CONSISTENCY,
    PROP_ENTAILMENT,
    PROP_INCONSISTENCY,
)
from nucs.heuristics import heuristics as H  # noqa: E402
from nucs.problems.problem import Problem  # noqa: E402
from nucs.propagators import propagators as P  # noqa: E402
from nucs.solvers import consistency_algorithms as CA  # noqa: E402
from nucs.solvers.backtrack_solver import BacktrackSolver  # noqa: E402

from vlib.catalogue import ALG_ATTR  # noqa: E402
from vlib.run import engine_direct  # noqa: E402

INTERPRETED = bool(os.environ.get("NUMBA_DISABLE_JIT"))

ALG = {name: getattr(P, attr) for name, attr in ALG_ATTR.items()}
ALG_NAME = {v: k for k, v in ALG.items()}
# min_geq is registered twice by the shipped registry; both indices are the same function
for _i, _f in enumerate(P.COMPUTE_DOMAINS_FCTS):
    if _i not in ALG_NAME and _f is P.COMPUTE_DOMAINS_FCTS[ALG["min_geq"]]:
        ALG_NAME[_i] = "min_geq"

STATUS_NAME = {PROP_INCONSISTENCY: "INCONSISTENCY", PROP_CONSISTENCY: "CONSISTENCY", PROP_ENTAILMENT: "ENTAILMENT"}

VAR_HEUR = {
    "first": H.VAR_HEURISTIC_FIRST_NOT_INSTANTIATED,
    "smallest": H.VAR_HEURISTIC_SMALLEST_DOMAIN,
    "greatest": H.VAR_HEURISTIC_GREATEST_DOMAIN,
    "max_regret": H.VAR_HEURISTIC_MAX_REGRET,
}
DOM_HEUR = {
    "min": H.DOM_HEURISTIC_MIN_VALUE,
    "max": H.DOM_HEURISTIC_MAX_VALUE,
    "split_low": H.DOM_HEURISTIC_SPLIT_LOW,
    "mid": H.DOM_HEURISTIC_MID_VALUE,
    "min_cost": H.DOM_HEURISTIC_MIN_COST,
}
CONS_ALG = {"bc": CA.CONSISTENCY_ALG_BC, "shaving": CA.CONSISTENCY_ALG_SHAVING}


def compute_domains(type_name, box, params):
    """One filtering call of the shipped propagator on a copy of the box.  Returns (status, new_box)."""
    dom = np.array(box, dtype=np.int32).reshape((-1, 2))
    par = np.array(params, dtype=np.int32)
    status = engine_direct(P.COMPUTE_DOMAINS_FCTS[ALG[type_name]], dom, par)
    return int(status), [[int(a), int(b)] for a, b in dom]


def get_triggers(type_name, n, params):
    return [int(x) for x in P.GET_TRIGGERS_FCTS[ALG[type_name]](n, np.array(params, dtype=np.int32))]


def build_problem(case, order=None):
    """nucs Problem for a problem case; order optionally permutes the posting order of the constraints."""
    pb = Problem([tuple(d) for d in case["shr"]], list(case["idx"]), list(case["off"]))
    props = case["props"] if order is None else [case["props"][i] for i in order]
    for pr in props:
        pb.add_propagator((list(pr["vars"]), ALG[pr["type"]], list(pr["params"])))
    return pb


def make_solver(pb, config, stack_max_height=None, decision_domains=None):
    """
    config: {"cons": "bc"|"shaving", "var": ..., "dom": ..., "costs": [[...] per shared domain] or None}
    """
    kw = {}
    if config.get("var") == "max_regret":
        kw["var_heuristic_params"] = config["costs"]
    if config.get("dom") == "min_cost":
        kw["dom_heuristic_params"] = config["costs"]
    if stack_max_height is not None:
        kw["stack_max_height"] = stack_max_height
    if decision_domains is None and config.get("decision") is not None:
        decision_domains = list(config["decision"])
    if decision_domains is not None:
        kw["decision_domains"] = decision_domains
    return BacktrackSolver(
        pb,
        consistency_alg_idx=CONS_ALG[config.get("cons", "bc")],
        var_heuristic_idx=VAR_HEUR[config.get("var", "first")],
        dom_heuristic_idx=DOM_HEUR[config.get("dom", "min")],
        log_level="CRITICAL",
        **kw,
    )


def needed_height(case, config):
    """A stack height that any search on this problem fits in (mid/min_cost push two levels per choice)."""
    depth = sum(max(0, hi - lo) for lo, hi in case["shr"])
    per = 2 if config.get("dom") in ("mid", "min_cost") else 1
    return max(8, per * depth + 4)


def vec(sol):
    return tuple(int(x) for x in sol)
