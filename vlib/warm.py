"""Compile the whole engine once into NUMBA_CACHE_DIR (compiled modes only).  Only compilation matters here:
what the engine computes, or raises, is the checks' business."""

from vlib import nx

case = {"shr": [[0, 2], [0, 2], [0, 2]], "idx": [0, 1, 2], "off": [0, 0, 0], "props": [{"type": "alldifferent", "vars": [0, 1, 2], "params": []}]}
for cons in ("bc", "shaving"):
    try:
        it = nx.make_solver(nx.build_problem(case), {"cons": cons, "var": "first", "dom": "min"}).solve()
        next(it, None)
        next(it, None)  # (two solutions: the resume path is compiled too; no full enumeration, which may not end on a broken tree)
    except Exception as e:  # noqa: BLE001
        print("warm: engine raised", repr(e))
# (no optimisation here: its restart loop is the likeliest place for a broken tree to spin; the two small jitted helpers it
# needs are compiled by the workers in about a second)
print("warm")
