"""Compile the whole engine once into NUMBA_CACHE_DIR (compiled modes only)."""

from vlib import nx

case = {"shr": [[0, 2], [0, 2], [0, 2]], "idx": [0, 1, 2], "off": [0, 0, 0], "props": [{"type": "alldifferent", "vars": [0, 1, 2], "params": []}]}
for cons in ("bc", "shaving"):
    s = nx.make_solver(nx.build_problem(case), {"cons": cons, "var": "first", "dom": "min"})
    assert len(s.find_all()) == 6
s = nx.make_solver(nx.build_problem(case), {"cons": "bc", "var": "first", "dom": "min"})
assert s.minimize(0) is not None
print("warm")
