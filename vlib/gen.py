"""
Hypothesis strategies (DESIGN.md 2.3).  Construction, not rejection: every generated case is inside the
documented contract of the types it uses (asserted with catalogue.in_contract by the callers).

Known finding K1 (gcc does not support a zero upper capacity) is excluded from the main generators by
construction (allow_zero_cap=True); the excluded region is counted by the callers.
"""

from hypothesis import strategies as st

from vlib.catalogue import ALL_TYPES, TYPES

HEAVY_TYPES = ("alldifferent", "gcc", "lexicographic_leq", "element_iv", "element_lic", "element_liv", "count_eq", "exactly_eq", "scc", "no_sub_cycle")

# ----------------------------------------------------------------------------------------------
# helpers
# ----------------------------------------------------------------------------------------------


@st.composite
def interval(draw, lo, hi, max_w):
    a = draw(st.integers(lo, hi))
    w = draw(st.integers(0, max_w))
    return [a, min(hi, a + w)]


@st.composite
def bool_interval(draw):
    return list(draw(st.sampled_from([(0, 1), (0, 1), (0, 0), (1, 1)])))


def _span(box):
    return min(lo for lo, _ in box), max(hi for _, hi in box)


@st.composite
def params_for(draw, name, box, allow_zero_cap=True, big=False):
    """Parameters of a constraint of the given type over the given (already chosen) views."""
    n = len(box)
    lo, hi = _span(box)
    if name.startswith("affine"):
        cmax = 3 if not big else 6
        cs = draw(st.lists(st.integers(-cmax, cmax), min_size=n, max_size=n))
        smin = sum(min(c * b[0], c * b[1]) for c, b in zip(cs, box))
        smax = sum(max(c * b[0], c * b[1]) for c, b in zip(cs, box))
        r = draw(st.integers(smin - 2, smax + 2))
        return cs + [r]
    if name == "count_eq":
        return [draw(st.integers(lo - 1, hi + 1))]
    if name == "element_iv":
        raise AssertionError("element_iv parameters are drawn with its box")
    if name == "element_lic":
        return [draw(st.integers(lo - 1, hi + 1))]
    if name == "exactly_eq":
        return [draw(st.integers(lo - 1, hi + 1)), draw(st.integers(0, n))]
    if name == "exactly_true":
        return [draw(st.integers(0, n))]
    if name == "gcc":
        v0 = lo - draw(st.integers(0, 1))
        m = hi - v0 + 1 + draw(st.integers(0, 1))
        lbs, ubs = [], []
        # tight capacities (alldifferent-like, total capacity close to the number of variables) make nested Hall
        # intervals and saturated lower capacities frequent; the loose mode covers the rest of the contract
        mode = draw(st.sampled_from(["tight", "tight", "loose", "low-heavy"]))
        for _ in range(m):
            if mode == "tight":
                lb = draw(st.sampled_from([0, 0, 0, 1]))
                ub = max(lb, draw(st.sampled_from([1, 1, 2])))
            elif mode == "low-heavy":
                lb = draw(st.sampled_from([0, 1, 1, 2]))
                ub = lb + draw(st.sampled_from([0, 0, 1]))
            else:
                lb = draw(st.integers(0, 2))
                ub = lb + draw(st.integers(0, 2))
            if ub == 0 and not allow_zero_cap:
                ub = 1
            lbs.append(lb)
            ubs.append(ub)
        return [v0] + lbs + ubs
    if name == "relation":
        k = draw(st.integers(1, 5))
        tuples = []
        for _ in range(k):
            if tuples and draw(st.integers(0, 5)) == 0:
                tuples.append(list(draw(st.sampled_from(tuples))))  # repeated tuple
            else:
                tuples.append([draw(st.integers(b[0] - 1, b[1] + 1)) for b in box])
        return [x for t in tuples for x in t]
    return []


# ----------------------------------------------------------------------------------------------
# box cases (propagator level: C05, C06, C07, C14, C16)
# ----------------------------------------------------------------------------------------------
@st.composite
def box_case(draw, types=None, max_n=4, max_w=3, lo=-3, hi=4, allow_zero_cap=True, point=False, big=False):
    pool = list(types or ALL_TYPES)
    # more weight on the propagators with deep data-dependent branching (Hall intervals, lex automaton, indices)
    pool = pool + [x for x in pool if x in HEAVY_TYPES] * 2
    name = draw(st.sampled_from(pool))
    t = TYPES[name]
    mw = 0 if point else max_w
    if name == "element_iv":
        ln = draw(st.integers(1, 5))
        params = draw(st.lists(st.integers(lo, hi), min_size=ln, max_size=ln))
        ib = draw(interval(-2, ln + 1, mw + 1 if not point else 0))
        vb = draw(interval(lo - 1, hi + 1, mw))
        return {"type": name, "params": params, "box": [ib, vb]}
    n_lo = t.min_n
    n = draw(st.integers(n_lo, max(n_lo, max_n + (1 if name in ("alldifferent", "gcc", "scc", "no_sub_cycle") else 0))))  # Hall intervals / graphs need room
    if t.even:
        n = 2 * draw(st.integers(1, max(2, max_n - 1)))  # lexicographic: up to max_n-1 pairs
    if t.boolean:
        box = [draw(bool_interval()) if not point else [draw(st.integers(0, 1))] * 2 for _ in range(n)]
    elif t.perm:
        box = [draw(interval(0, n - 1, (n - 1) if not point else 0)) for _ in range(n)]
    elif name == "alldifferent" or name == "gcc":
        # narrow window so that Hall intervals / saturated capacities are frequent
        wlo = draw(st.integers(lo, hi - 1))
        whi = min(hi, wlo + draw(st.integers(0, n + 1)))
        box = [draw(interval(wlo, whi, mw)) for _ in range(n)]
    elif name == "element_lic":
        box = [draw(interval(lo, hi, mw)) for _ in range(n - 1)] + [draw(interval(-2, n, mw + 1 if not point else 0))]
    elif name == "element_liv":
        box = (
            [draw(interval(lo, hi, mw)) for _ in range(n - 2)]
            + [draw(interval(-2, n - 1, mw + 1 if not point else 0))]
            + [draw(interval(lo, hi, mw))]
        )
    elif name == "count_eq":
        box = [draw(interval(lo, hi, mw)) for _ in range(n - 1)] + [draw(interval(-1, n, mw))]
    else:
        box = [draw(interval(lo, hi, mw)) for _ in range(n)]
    if name in ("count_eq",):
        xs = box[:-1]
        params = [draw(st.integers(_span(xs)[0] - 1, _span(xs)[1] + 1))]
    elif name == "element_lic":
        xs = box[:-1]
        params = [draw(st.integers(_span(xs)[0] - 1, _span(xs)[1] + 1))]
    else:
        params = draw(params_for(name, box, allow_zero_cap=allow_zero_cap, big=big))
    return {"type": name, "params": params, "box": box}


# ----------------------------------------------------------------------------------------------
# far boxes: the same shapes moved far away from zero (beyond 8/16-bit ranges, up to 10^9).  The brute-force oracles
# depend on the widths only, so the value magnitude is free; what is moved with the box is whatever the documented
# relation needs so that the contract still holds (gcc base value, list entries, searched values, right-hand sides).
# ----------------------------------------------------------------------------------------------
FAR_SHIFTS = [120, 130, 250, 260, 32760, 32768, 32770, 40000, 65530, 65536, 70000, 10**6, 10**7]
FAR_SHIFTS_NONLINEAR = FAR_SHIFTS + [2 * 10**8, 10**9]


def shift_box_case(case, t):
    """The case with every *value* moved by t (indices, counts and Booleans stay where they are)."""
    name, box, p = case["type"], case["box"], list(case["params"])
    sh = lambda b: [b[0] + t, b[1] + t]  # noqa: E731
    T = TYPES[name]
    if T.boolean or T.perm or name == "dummy":
        return case
    if name.startswith("affine"):
        return {"type": name, "params": p[:-1] + [p[-1] + t * sum(p[:-1])], "box": [sh(b) for b in box]}
    if name == "count_eq":
        return {"type": name, "params": [p[0] + t], "box": [sh(b) for b in box[:-1]] + [box[-1]]}
    if name == "element_iv":
        return {"type": name, "params": [x + t for x in p], "box": [box[0], sh(box[1])]}
    if name == "element_lic":
        return {"type": name, "params": [p[0] + t], "box": [sh(b) for b in box[:-1]] + [box[-1]]}
    if name == "element_liv":
        return {"type": name, "params": p, "box": [sh(b) for b in box[:-2]] + [box[-2], sh(box[-1])]}
    if name == "exactly_eq":
        return {"type": name, "params": [p[0] + t, p[1]], "box": [sh(b) for b in box]}
    if name == "gcc":
        return {"type": name, "params": [p[0] + t] + p[1:], "box": [sh(b) for b in box]}
    if name == "relation":
        return {"type": name, "params": [x + t for x in p], "box": [sh(b) for b in box]}
    return {"type": name, "params": p, "box": [sh(b) for b in box]}


@st.composite
def far_box_case(draw, **kw):
    case = draw(box_case(**kw))
    linear = case["type"].startswith("affine")
    t = draw(st.sampled_from(FAR_SHIFTS if linear else FAR_SHIFTS_NONLINEAR)) * draw(st.sampled_from([1, -1]))
    t += draw(st.integers(-3, 3))
    return shift_box_case(case, t)


# ----------------------------------------------------------------------------------------------
# problem cases (solver level)
# ----------------------------------------------------------------------------------------------
GENERAL_TYPES = [
    "affine_eq",
    "affine_geq",
    "affine_leq",
    "alldifferent",
    "count_eq",
    "dummy",
    "element_iv",
    "element_lic",
    "element_liv",
    "exactly_eq",
    "gcc",
    "lexicographic_leq",
    "max_eq",
    "max_leq",
    "min_eq",
    "min_geq",
    "relation",
]
BOOL_TYPES = ["and", "exactly_true"]
ONE_DIRECTIONAL_TYPES = ["affine_geq", "affine_leq", "max_leq", "min_geq"]
PERM_TYPES = ["no_sub_cycle", "scc"]


def _view(case, v):
    lo, hi = case["shr"][case["idx"][v]]
    return [lo + case["off"][v], hi + case["off"][v]]


@st.composite
def _scope(draw, cands, n, repeats):
    """n variables among cands; with repeats allowed a variable may occur several times."""
    if repeats or n > len(cands):
        return [draw(st.sampled_from(cands)) for _ in range(n)]
    return list(draw(st.permutations(cands)))[:n]


@st.composite
def propagator_on(draw, case, types, max_arity=4, allow_zero_cap=True, repeat_prob=4):
    """One in-contract constraint over the variables of the (partial) problem case."""
    nv = len(case["idx"])
    allv = list(range(nv))
    boolv = [v for v in allv if 0 <= _view(case, v)[0] and _view(case, v)[1] <= 1]
    feasible = []
    for name in types:
        t = TYPES[name]
        if t.boolean and len(boolv) < 1:
            continue
        if t.perm:
            continue  # perm types are posted by the perm profile only
        feasible.append(name)
    name = draw(st.sampled_from(feasible))
    t = TYPES[name]
    repeats = draw(st.integers(0, repeat_prob)) == 0
    if name == "element_iv":
        vs = draw(_scope(allv, 2, repeats))
        ln = draw(st.integers(1, 5))
        vlo, vhi = _view(case, vs[1])
        params = draw(st.lists(st.integers(vlo - 1, vhi + 1), min_size=ln, max_size=ln))
        return {"type": name, "vars": vs, "params": params}
    cands = boolv if t.boolean else allv
    n = draw(st.integers(t.min_n, max(t.min_n, max_arity)))
    if t.even:
        n = 2 * draw(st.integers(1, max(1, max_arity // 2)))
    if not repeats:
        n = min(n, len(cands))
        if n < t.min_n or (t.even and n % 2):
            repeats = True
            n = max(t.min_n, n + (n % 2 if t.even else 0))
    vs = draw(_scope(cands, n, repeats))
    box = [_view(case, v) for v in vs]
    if name in ("count_eq", "element_lic"):
        lo, hi = _span(box[:-1])
        params = [draw(st.integers(lo - 1, hi + 1))]
    else:
        params = draw(params_for(name, box, allow_zero_cap=allow_zero_cap))
    return {"type": name, "vars": vs, "params": params}


@st.composite
def problem_case(
    draw,
    max_shr=5,
    max_w=3,
    max_props=3,
    max_arity=4,
    max_points=20000,
    profiles=("general", "general", "bool", "perm", "nonneg", "wide", "onedir", "far"),
    allow_zero_cap=True,
    extra_vars=True,
    min_props=1,
):
    profile = draw(st.sampled_from(profiles))
    if profile == "perm":
        n = draw(st.integers(3, min(5, max(3, max_shr))))
        shr = []
        for _ in range(n):
            shr.append([0, n - 1] if draw(st.integers(0, 3)) else draw(interval(0, n - 1, n - 1)))
        case = {"shr": shr, "idx": list(range(n)), "off": [0] * n, "props": []}
        scope = list(draw(st.permutations(list(range(n)))))
        case["props"].append({"type": "alldifferent", "vars": scope, "params": []})
        k = draw(st.integers(1, 2))
        for _ in range(k):
            nm = draw(st.sampled_from(["no_sub_cycle", "no_sub_cycle", "scc"]))
            case["props"].append({"type": nm, "vars": list(range(n)), "params": []})
        extra = draw(st.integers(0, max(0, max_props - 2)))
        for _ in range(extra):
            case["props"].append(draw(propagator_on(case, GENERAL_TYPES, max_arity, allow_zero_cap)))
        # posting order is part of the input
        case["props"] = list(draw(st.permutations(case["props"])))
        return case
    ns = draw(st.integers(1, max_shr if profile != "wide" else min(3, max_shr))) if profile != "onedir" else draw(st.integers(2, min(4, max(2, max_shr))))
    shr = []
    size = 1
    if profile == "far":
        # every domain around one value far from zero (16-bit limits, millions): value magnitude instead of shape
        far_base = draw(st.sampled_from([250, 32766, 40000, 65534, 10**6, 5 * 10**7])) * draw(st.sampled_from([1, -1]))
    for _ in range(ns):
        if profile == "far":
            d = draw(interval(far_base - 3, far_base + 4, max_w))
        elif profile == "bool":
            d = draw(bool_interval())
        elif profile == "wide":
            # few variables with wide domains: 3-way value splits with non-singleton remainders, deep restarts
            a = draw(st.integers(-4, 3))
            d = [a, a + draw(st.integers(3, 9))]
            if draw(st.integers(0, 2)) == 0:
                d = [d[0] - a, d[1] - a]  # non-negative: cost heuristics applicable
        elif profile == "nonneg":
            d = draw(interval(0, 4, max_w))
        elif profile == "onedir":
            d = [0, draw(st.integers(1, 3))]
        else:
            d = draw(interval(-3, 4, max_w))
        if size * (d[1] - d[0] + 1) > max_points:
            d = [d[0], d[0]]
        size *= d[1] - d[0] + 1
        shr.append(d)
    idx = list(range(ns))
    off = [0] * ns
    if extra_vars and profile != "bool":
        # some of the first variables get an offset; extra variables share a domain with an offset
        if draw(st.integers(0, 3)) == 0:
            off = [draw(st.integers(-2, 2)) for _ in range(ns)]
        for _ in range(draw(st.integers(0, 3))):
            idx.append(draw(st.integers(0, ns - 1)))
            off.append(draw(st.integers(-2, 2)))
    elif extra_vars:
        for _ in range(draw(st.integers(0, 2))):
            idx.append(draw(st.integers(0, ns - 1)))
            off.append(0)
    case = {"shr": shr, "idx": idx, "off": off, "props": []}
    types = GENERAL_TYPES + (BOOL_TYPES * 3 if profile == "bool" else BOOL_TYPES)
    if profile == "wide":
        types = types + ONE_DIRECTIONAL_TYPES * 3  # constraints that watch one bound only
    if profile == "onedir":
        # webs of constraints that each watch one bound only: a missed or misdirected wake-up is not healed by another event
        types = ONE_DIRECTIONAL_TYPES * 4 + ["affine_eq", "alldifferent", "max_eq", "min_eq"]
        min_props, max_props = max(min_props, 3), max(max_props, 6)
    for _ in range(draw(st.integers(min_props, max_props))):
        case["props"].append(draw(propagator_on(case, types, max_arity, allow_zero_cap)))
    if len(idx) > 1 and draw(st.integers(0, 2)) == 0:
        # variables in any order: variable number d need not be the one that owns shared domain d
        case = shuffle_variables(case, list(draw(st.permutations(list(range(len(idx)))))))
    return case


def shuffle_variables(case, perm):
    """perm[j] = old index of the variable that becomes variable j."""
    pos = {old: j for j, old in enumerate(perm)}
    return {
        "shr": case["shr"],
        "idx": [case["idx"][old] for old in perm],
        "off": [case["off"][old] for old in perm],
        "props": [{"type": p["type"], "vars": [pos[v] for v in p["vars"]], "params": p["params"]} for p in case["props"]],
    }


VARS = ["first", "smallest", "greatest", "max_regret"]
DOMS = ["min", "max", "split_low", "mid", "min_cost"]
CONS = ["bc", "shaving"]


def cost_heuristics_allowed(case):
    # the cost tables have one column per value from 0 to the greatest one: only for small non-negative values
    return all(lo >= 0 and hi <= 64 for lo, hi in case["shr"])


@st.composite
def cost_table(draw, case, ties=True):
    """One row of strictly positive costs per shared domain, wide enough for its values; ties are frequent."""
    width = max(hi for _, hi in case["shr"]) + 1
    mode = draw(st.sampled_from(["tied", "random", "random", "rowtied"]))
    rows = []
    for _ in case["shr"]:
        if mode == "tied":
            rows.append([1] * width)
        elif mode == "rowtied":
            c = draw(st.integers(1, 3))
            rows.append([c] * width)
        else:
            rows.append([draw(st.integers(1, 4)) for _ in range(width)])
    return rows


@st.composite
def config(draw, case, cons=CONS, vars_=VARS, doms=DOMS):
    allow_cost = cost_heuristics_allowed(case)
    vs = [v for v in vars_ if allow_cost or v != "max_regret"]
    ds = [d for d in doms if allow_cost or d != "min_cost"]
    c = {"cons": draw(st.sampled_from(cons)), "var": draw(st.sampled_from(vs)), "dom": draw(st.sampled_from(ds))}
    if c["var"] == "max_regret" or c["dom"] == "min_cost":
        c["costs"] = draw(cost_table(case))
    if len(case["shr"]) > 1 and draw(st.integers(0, 3)) == 0:
        # decision domains in any order (all of them: every domain is a decision domain, as C02 requires)
        c["decision"] = list(draw(st.permutations(list(range(len(case["shr"]))))))
    return c


def all_configs(case, costs):
    """Every configuration applicable to the case (cost heuristics only for non-negative domains)."""
    allow_cost = cost_heuristics_allowed(case)
    out = []
    for c in CONS:
        for v in VARS:
            for d in DOMS:
                if not allow_cost and (v == "max_regret" or d == "min_cost"):
                    continue
                cfg = {"cons": c, "var": v, "dom": d}
                if v == "max_regret" or d == "min_cost":
                    cfg["costs"] = costs
                out.append(cfg)
    return out
