"""
Running the real solver on a problem case (both modes) and classifying what happened.

Outcome.kind:
  "ok"      the call returned
  "error"   nucs code raised (EngineError bucket in .msg) — reported by the property whose run it aborted / C16
  "budget"  a deterministic progress budget of DESIGN.md 2.4 was exceeded (C04; also "does not stop" for C02/C03)
  "slow"    the wall-clock trigger fired but the deterministic confirmation did not: inconclusive, never a violation
"""

import os

from vlib import nx
from vlib.ref import shr_box_size
from vlib.run import BudgetExceeded, EngineError, engine

INTERPRETED = nx.INTERPRETED
if INTERPRETED:
    from vlib import interpose

ALARM_S = float(os.environ.get("VERIF_CASE_ALARM", "20"))


class Outcome:
    def __init__(self):
        self.kind = "ok"
        self.msg = ""
        self.solutions = []  # vectors delivered to the caller, in order
        self.value = None  # return value of minimize/maximize (tuple or None)
        self.exhausted = False  # the iterator raised StopIteration
        self.resurrected = 0  # solutions yielded by a further next() after exhaustion
        self.stats = None
        self.session = None
        self.solver = None


def _drive(solver, op, out):
    kind = op[0]
    if kind == "find_all":
        out.solutions = [nx.vec(s) for s in solver.find_all()]
        out.exhausted = True
    elif kind == "again":
        # a second exhaustive search on the same solver object
        solver.find_all()
        out.solutions = [nx.vec(s) for s in solver.find_all()]
        out.exhausted = True
    elif kind == "solve_all":
        acc = []
        solver.solve_all(lambda s: acc.append(nx.vec(s)))
        out.solutions = acc
        out.exhausted = True
    elif kind == "iter":
        # full iteration through the generator, then one more next()
        it = solver.solve()
        for s in it:
            out.solutions.append(nx.vec(s))
        out.exhausted = True
        for s in it:
            out.resurrected += 1
    elif kind == "prefix":
        it = solver.solve()
        for _ in range(op[1]):
            try:
                out.solutions.append(nx.vec(next(it)))
            except StopIteration:
                out.exhausted = True
                break
    elif kind == "after":
        # op = ("after", pre, final): a complete earlier search (pre) on the same solver object, then the observed one
        _drive(solver, tuple(op[1]), Outcome())
        _drive(solver, tuple(op[2]), out)
        return
    elif kind == "min":
        r = solver.minimize(op[1])
        out.value = None if r is None else nx.vec(r)
    elif kind == "max":
        r = solver.maximize(op[1])
        out.value = None if r is None else nx.vec(r)
    else:
        raise ValueError(op)
    out.stats = solver.get_statistics()


def run(case, config, op, order=None, detail=False, observers=(), schedule=None, height=None, budget=True, pb=None):
    """Build a fresh Problem + BacktrackSolver for the case and perform op."""
    out = Outcome()
    if pb is None:
        pb = nx.build_problem(case, order)
    try:
        solver = engine(nx.make_solver, pb, config, height if height is not None else nx.needed_height(case, config))
    except EngineError as e:
        out.kind, out.msg = "error", "solver construction raised %s" % e.bucket
        return out
    out.solver = solver
    if not INTERPRETED:
        try:
            engine(_drive, solver, op, out)
        except EngineError as e:
            out.kind, out.msg = "error", e.bucket
        return out
    s = interpose.Session(detail=detail, budget=budget)
    s.observers = list(observers)
    s.schedule = schedule
    points = shr_box_size(case)

    def bounds(o):
        """(choice bound, solution budget, why) of one search"""
        if o[0] in ("min", "max"):
            d = case["shr"][case["idx"][o[1]]]
            r = d[1] - d[0] + 3
            # each improving solution removes at least one value of the objective's domain
            return points * r + 2, r, "an optimisation can improve at most %d times on an objective with %d values" % (r - 2, r - 2)
        return points + 2, points + 1, "the search space has %d points" % points

    if op[0] == "after":
        (c1, s1, _), (c2, s2, w2) = bounds(tuple(op[1])), bounds(tuple(op[2]))
        s.choice_bound, s.solution_budget, s.solution_budget_why = c1 + c2, s1 + s2, w2 + " (after an earlier complete search on the same solver)"
    else:
        s.choice_bound, s.solution_budget, s.solution_budget_why = bounds(op)
    s.choice_budget = s.choice_bound
    out.session = s

    def go():
        with interpose.use(s):
            engine(_drive, solver, op, out)

    try:
        interpose.with_alarm(ALARM_S, go)
    except BudgetExceeded as e:
        out.kind, out.msg = "budget", str(e)
    except EngineError as e:
        out.kind, out.msg = "error", e.bucket
        if isinstance(e.exc, BudgetExceeded):
            out.kind, out.msg = "budget", str(e.exc)
    except interpose.HangSuspect:
        # deterministic confirmation on a fresh solver: per-call line budget
        out2 = Outcome()
        pb2 = nx.build_problem(case, order)
        solver2 = nx.make_solver(pb2, config, height if height is not None else nx.needed_height(case, config))
        s2 = interpose.Session(detail=False, budget=budget)
        s2.choice_bound = s.choice_bound
        s2.choice_budget = s.choice_bound
        s2.solution_budget, s2.solution_budget_why = s.solution_budget, s.solution_budget_why

        def go2():
            with interpose.use(s2):
                interpose.with_line_budget(engine, _drive, solver2, op, out2)

        try:
            interpose.with_alarm(ALARM_S * 6, go2)
            out.kind, out.msg = "slow", "finished under tracing"
        except BudgetExceeded as e:
            out.kind, out.msg = "budget", str(e)
        except EngineError as e:
            if isinstance(e.exc, BudgetExceeded):
                out.kind, out.msg = "budget", str(e.exc)
            else:
                out.kind, out.msg = "error", e.bucket
        except interpose.HangSuspect:
            out.kind, out.msg = "slow", "no verdict within the tracing time"
    return out
