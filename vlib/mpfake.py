"""
Schedule-owned stand-ins for multiprocessing.Process / Queue (DESIGN.md C11).

The real parent loops of nucs.solvers.multiprocessing_solver (solve / optimize / get_statistics) and the
real worker entry points (solve_and_queue / optimize_and_queue) are executed; only the transport is
replaced.  Process.start() runs the worker to completion in-process and records its message stream;
Queue.get() delivers the next message of the stream chosen by the schedule (a list of worker indices
drawn by Hypothesis; when the chosen stream is exhausted the next non-empty one in cyclic order is used),
so every merge order of the streams is reachable and shrinkable.  As with the real feeder thread, the
statistics object travelling with a message is a snapshot taken at or after the put: `late[w]` selects, per
worker, whether each message carries the statistics as of its own put or as of a later put of the same
worker.
"""

import importlib
import queue as _queue

import numpy as np

from vlib import nx
from vlib.run import BudgetExceeded

M_MP = importlib.import_module("nucs.solvers.multiprocessing_solver")
MultiprocessingSolver = M_MP.MultiprocessingSolver


class FakeDeadlock(BaseException):
    """The parent asked for a message although every worker has delivered everything it sent."""


class Transport:
    def __init__(self, nworkers, schedule, late):
        self.streams = [[] for _ in range(nworkers)]
        self.pos = [0] * nworkers
        self.schedule = list(schedule)
        self.sched_pos = 0
        self.late = late
        self.gets = 0
        self.order = []  # worker index of each delivered message
        self.started = []
        self.empty_polls = 0
        self.puts = 0
        self.max_messages = 50000

    # worker side
    def put(self, item):
        idx, solution, statistics = item
        self.puts += 1
        if self.puts > self.max_messages:
            # a worker that never stops sending (non-terminating optimisation) must not exhaust the memory
            raise BudgetExceeded("the workers sent more than %d messages" % self.max_messages)
        self.streams[idx].append([idx, None if solution is None else np.array(solution, copy=True), np.array(statistics, copy=True)])

    def finalize(self):
        # statistics snapshot "at or after the put"
        for w, st in enumerate(self.streams):
            if self.late and self.late[w % len(self.late)]:
                k = self.late[w % len(self.late)]
                for i, m in enumerate(st):
                    j = min(len(st) - 1, i + k)
                    m[2] = st[j][2] if j != i else m[2]

    # parent side
    def get(self, block=True, timeout=None):
        n = len(self.streams)
        live = [w for w in range(n) if self.pos[w] < len(self.streams[w])]
        if not live:
            self.empty_polls += 1
            if timeout is None:
                raise FakeDeadlock()
            if self.empty_polls > 4:
                raise FakeDeadlock()
            raise _queue.Empty()
        if self.sched_pos < len(self.schedule):
            w = self.schedule[self.sched_pos] % n
            self.sched_pos += 1
        else:
            w = live[0]
        while self.pos[w] >= len(self.streams[w]):
            w = (w + 1) % n
        m = self.streams[w][self.pos[w]]
        self.pos[w] += 1
        self.gets += 1
        self.order.append(w)
        return (m[0], m[1], m[2])

    def total(self):
        return sum(len(s) for s in self.streams)


class FakeProcess:
    transport = None

    def __init__(self, target=None, args=()):
        self.target, self.args = target, args
        self.done = False

    def start(self):
        self.target(*self.args)
        self.done = True

    def is_alive(self):
        # a worker whose messages have not all been delivered is "still running" from the parent's view
        t = FakeProcess.transport
        idx = self.args[-2]
        return t.pos[idx] < len(t.streams[idx])

    def terminate(self):
        pass

    def join(self, timeout=None):
        pass


class patched:
    """with patched(nworkers, schedule, late) as transport: MultiprocessingSolver(...).solve() ..."""

    def __init__(self, nworkers, schedule, late=None):
        self.t = Transport(nworkers, schedule, late)

    def __enter__(self):
        self.saved = (M_MP.Process, M_MP.Queue, getattr(M_MP, "QUEUE_TIMEOUT", None))
        FakeProcess.transport = self.t
        t = self.t

        class _Q:
            def __init__(self, *a, **k):
                pass

            def put(self, item, *a, **k):
                t.put(item)

            def get(self, *a, **k):
                if not getattr(t, "_finalized", False):
                    t.finalize()
                    t._finalized = True
                return t.get(*a, **k)

        M_MP.Process = FakeProcess
        M_MP.Queue = _Q
        return self.t

    def __exit__(self, *exc):
        M_MP.Process, M_MP.Queue = self.saved[0], self.saved[1]
        FakeProcess.transport = None
        return False


def split_solvers(case, k, var, config, order=None):
    pb = nx.build_problem(case, order)
    subs = pb.split(k, var)
    return [nx.make_solver(sp, config, nx.needed_height(case, config)) for sp in subs]
