"""
Schedule-owned stand-ins for multiprocessing.Process / Queue (DESIGN.md C11).

The real parent loops of nucs.solvers.multiprocessing_solver (solve / optimize / get_statistics) and the
real worker entry points (solve_and_queue / optimize_and_queue) are executed; only the transport is
replaced.  Process.start() runs the worker to completion in-process and records its message stream;
Queue.get() delivers the next message of the stream chosen by the schedule (a list of worker indices
drawn by Hypothesis; when the chosen stream is exhausted the next non-empty one in cyclic order is used),
so every merge order of the streams is reachable and shrinkable.  As with the real feeder thread, the
statistics object travelling with a message is a snapshot taken at or after the put: `late[w]` selects, per
worker, whether each message carries the statistics as of its own put or as of a later put of the same
worker.
"""

import importlib
import queue as _queue

import numpy as np

from vlib import nx
from vlib.run import BudgetExceeded

M_MP = importlib.import_module("nucs.solvers.multiprocessing_solver")
MultiprocessingSolver = M_MP.MultiprocessingSolver


class FakeDeadlock(BaseException):
    """The parent asked for a message although every worker has delivered everything it sent."""


class Transport:
    """
    Schedule tokens: w >= 0 = "worker w sends its next message" (a worker that has sent everything has exited);
    -1 = "nothing happens for the length of the parent's timeout" (get(timeout) raises Empty).  A message that has been
    sent is delivered by the next get().  is_alive() lets one pending send happen first, which models a worker finishing
    between the parent's timeout and its liveness check.  When the tokens are used up the remaining messages are sent
    worker by worker.
    """

    def __init__(self, nworkers, schedule, late):
        self.streams = [[] for _ in range(nworkers)]
        self.sent = [0] * nworkers
        self.pipe = []
        self.pos = [0] * nworkers  # delivered per worker
        self.schedule = list(schedule)
        self.sched_pos = 0
        self.late = late
        self.gets = 0
        self.order = []  # worker index of each delivered message
        self.empties = 0
        self.empty_polls = 0
        self.puts = 0
        self.max_messages = 50000
        self.refs = []  # (worker, position, the statistics object as it was handed to put())

    # worker side
    def put(self, item):
        idx, solution, statistics = item
        self.puts += 1
        if self.puts > self.max_messages:
            # a worker that never stops sending (non-terminating optimisation) must not exhaust the memory
            raise BudgetExceeded("the workers sent more than %d messages" % self.max_messages)
        self.streams[idx].append([idx, None if solution is None else np.array(solution, copy=True), np.array(statistics, copy=True)])
        self.refs.append((idx, len(self.streams[idx]) - 1, statistics, np.array(statistics, copy=True)))

    def live_messages(self):
        """
        Messages whose statistics object was modified by the worker after the put(): the real Queue pickles a message in a feeder
        thread at some later time, so such a message does not carry the statistics of the moment it was sent.
        """
        return [(w, i) for w, i, ref, snap in self.refs if not np.array_equal(np.asarray(ref), snap)]

    def finalize(self):
        # statistics snapshot "at or after the put"
        for w, st in enumerate(self.streams):
            if self.late and self.late[w % len(self.late)]:
                k = self.late[w % len(self.late)]
                for i, m in enumerate(st):
                    j = min(len(st) - 1, i + k)
                    m[2] = st[j][2] if j != i else m[2]

    def _send(self, w):
        n = len(self.streams)
        for _ in range(n):
            if self.sent[w] < len(self.streams[w]):
                self.pipe.append((w, self.sent[w]))
                self.sent[w] += 1
                return True
            w = (w + 1) % n
        return False

    def _step(self, allow_quiet):
        """Consumes one token.  Returns "sent", "quiet" or None (no token left)."""
        while self.sched_pos < len(self.schedule):
            t = self.schedule[self.sched_pos]
            self.sched_pos += 1
            if t < 0:
                if allow_quiet:
                    return "quiet"
                continue
            if self._send(t % len(self.streams)):
                return "sent"
        return None

    # parent side
    def get(self, block=True, timeout=None):
        if not self.pipe:
            r = self._step(allow_quiet=timeout is not None)
            if r == "quiet":
                self.empties += 1
                raise _queue.Empty()
            if r is None and not self._send(0):
                # every worker has sent everything and everything was delivered
                self.empty_polls += 1
                if timeout is None or self.empty_polls > 4:
                    raise FakeDeadlock()
                raise _queue.Empty()
        w, i = self.pipe.pop(0)
        m = self.streams[w][i]
        self.pos[w] += 1
        self.gets += 1
        self.order.append(w)
        return (m[0], m[1], m[2])

    def alive(self, w):
        # something may happen between the parent's timeout and its liveness check
        if self.sched_pos < len(self.schedule) and self.schedule[self.sched_pos] >= 0:
            self._step(allow_quiet=False)
        return self.sent[w] < len(self.streams[w])

    def total(self):
        return sum(len(s) for s in self.streams)


class FakeProcess:
    transport = None

    def __init__(self, target=None, args=()):
        self.target, self.args = target, args
        self.done = False

    def start(self):
        self.target(*self.args)
        self.done = True

    def is_alive(self):
        # a worker is running until it has sent its last message
        t = FakeProcess.transport
        return t.alive(self.args[-2])

    def terminate(self):
        pass

    def join(self, timeout=None):
        pass


class patched:
    """with patched(nworkers, schedule, late) as transport: MultiprocessingSolver(...).solve() ..."""

    def __init__(self, nworkers, schedule, late=None):
        self.t = Transport(nworkers, schedule, late)

    def __enter__(self):
        self.saved = (M_MP.Process, M_MP.Queue, getattr(M_MP, "QUEUE_TIMEOUT", None))
        FakeProcess.transport = self.t
        t = self.t

        class _Q:
            def __init__(self, *a, **k):
                pass

            def put(self, item, *a, **k):
                t.put(item)

            def get(self, *a, **k):
                if not getattr(t, "_finalized", False):
                    t.finalize()
                    t._finalized = True
                return t.get(*a, **k)

        M_MP.Process = FakeProcess
        M_MP.Queue = _Q
        return self.t

    def __exit__(self, *exc):
        M_MP.Process, M_MP.Queue = self.saved[0], self.saved[1]
        FakeProcess.transport = None
        return False


def split_solvers(case, k, var, config, order=None):
    pb = nx.build_problem(case, order)
    subs = pb.split(k, var)
    return [nx.make_solver(sp, config, nx.needed_height(case, config)) for sp in subs]
