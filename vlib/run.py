"""
Worker-side runner: drives one oracle with Hypothesis and records what was actually generated.

A check function takes a JSON-able case and returns a Verdict.  Violations are *returned* (never
raised through a catch-all); an unexpected exception from the harness itself propagates and makes the
worker exit with a harness error (exit 2 at the driver), never a VIOLATION.
"""

import hashlib
import json
import os
import time
import traceback

import hypothesis
from hypothesis import HealthCheck, Phase, given, settings


class Verdict:
    __slots__ = ("ok", "msg", "nontrivial", "tags", "excluded", "obs")

    def __init__(self, ok=True, msg="", nontrivial=False, tags=(), excluded=None):
        self.ok = ok
        self.msg = msg
        self.nontrivial = nontrivial
        self.tags = tags
        self.excluded = excluded


class EngineError(Exception):
    """An exception raised by nucs code (not by the harness) while executing a case."""

    def __init__(self, exc):
        super().__init__(repr(exc))
        self.exc = exc
        self.bucket = bucket_of(exc)


def bucket_of(exc):
    """(exception type, innermost nucs frame) — used to count root causes, not crashing inputs."""
    frame = "?"
    for fs in traceback.extract_tb(exc.__traceback__):
        if "/nucs/" in fs.filename:
            frame = "%s:%s" % (os.path.basename(fs.filename), fs.name)
    return "%s@%s" % (type(exc).__name__, frame)


def engine(fn, *a, **kw):
    """Call into nucs; any exception raised from inside nucs becomes an EngineError."""
    try:
        return fn(*a, **kw)
    except BudgetExceeded:
        raise
    except Exception as e:  # noqa: BLE001 - classified below, never swallowed
        if any("/nucs/" in fs.filename or "/numba/" in fs.filename or "/numpy/" in fs.filename for fs in traceback.extract_tb(e.__traceback__)):
            raise EngineError(e) from e
        raise


def engine_direct(fn, *a):
    """
    A bare call of a nucs function from the harness (nothing of the harness runs inside it): every exception is the
    engine's.  Needed in compiled mode, where an exception raised by jitted code carries no nucs frame.
    """
    try:
        return fn(*a)
    except BudgetExceeded:
        raise
    except EngineError:
        raise
    except Exception as e:  # noqa: BLE001
        err = EngineError(e)
        if err.bucket.endswith("@?"):
            err.bucket = "%s@%s" % (type(e).__name__, getattr(fn, "__name__", "?"))
        raise err from e


class BudgetExceeded(Exception):
    """Deterministic progress-measure overrun (DESIGN.md 2.4); raised by the interposers."""


class Journal:
    """The case a worker is about to execute, for the driver's watchdog (compiled code cannot be interrupted from inside)."""

    def __init__(self):
        path = os.environ.get("VERIF_JOURNAL")
        self.fd = os.open(path, os.O_WRONLY | os.O_CREAT | os.O_TRUNC, 0o600) if path else None

    def begin(self, case):
        if self.fd is not None:
            data = json.dumps({"t": time.time(), "case": case}).encode()
            os.pwrite(self.fd, data, 0)
            os.ftruncate(self.fd, len(data))

    def end(self):
        if self.fd is not None:
            os.pwrite(self.fd, b"{}", 0)
            os.ftruncate(self.fd, 2)


_JOURNAL = None


def journal():
    global _JOURNAL
    if _JOURNAL is None:
        _JOURNAL = Journal()
    return _JOURNAL


def case_hash(case):
    return hashlib.sha1(json.dumps(case, sort_keys=True, separators=(",", ":")).encode()).hexdigest()[:12]


class Recorder:
    def __init__(self, max_samples=6):
        self.evaluations = 0
        self.nontrivial = set()
        self.samples = []
        self.hist = {}
        self.excluded = {}
        self.failures = []
        self.max_samples = max_samples
        self.last_failure = None

    def tag(self, key, n=1):
        if "/decision=" in key:
            key = key.split("/decision=")[0] + "/decision-order"
        self.hist[key] = self.hist.get(key, 0) + n

    def record(self, case, verdict):
        self.evaluations += 1
        for t in verdict.tags:
            self.tag(t)
        if verdict.excluded:
            self.excluded[verdict.excluded] = self.excluded.get(verdict.excluded, 0) + 1
        if verdict.nontrivial:
            h = case_hash(case)
            if h not in self.nontrivial:
                self.nontrivial.add(h)
                if len(self.samples) < self.max_samples and (len(self.nontrivial) % 7 == 1 or len(self.samples) == 0):
                    self.samples.append(case)

    def result(self):
        return {
            "evaluations": self.evaluations,
            "nontrivial": sorted(self.nontrivial),
            "samples": self.samples,
            "hist": self.hist,
            "excluded": self.excluded,
            "failures": self.failures,
        }


class _Fail(AssertionError):
    pass


def hyp_settings(max_examples, shrink=True, stateful_step_count=None):
    phases = [Phase.explicit, Phase.generate] + ([Phase.shrink] if shrink else [])
    kw = dict(
        max_examples=max_examples,
        database=None,
        deadline=None,
        report_multiple_bugs=False,
        suppress_health_check=list(HealthCheck),
        phases=phases,
        print_blob=False,
    )
    if stateful_step_count is not None:
        kw["stateful_step_count"] = stateful_step_count
    return settings(**kw)


def drive(strategy, check, rec, seed, max_examples, shrink=True, max_failures=1, shrink_budget_s=120):
    """
    Run `check` on max_examples cases drawn from `strategy`.  On a violation Hypothesis shrinks the case;
    the shrunk case and message are appended to rec.failures.  Returns when done.
    """
    state = {"deadline": None}
    jr = journal()

    @hypothesis.seed(seed)
    @hyp_settings(max_examples, shrink)
    @given(strategy)
    def test(case):
        jr.begin(case)
        v = check(case)
        jr.end()
        if not state.get("shrinking"):
            rec.record(case, v)
        if not v.ok:
            if not state.get("shrinking"):
                state["shrinking"] = True
                state["deadline"] = time.time() + shrink_budget_s
            rec.last_failure = (case, v.msg)
            raise _Fail(v.msg)
        if state.get("shrinking") and state["deadline"] is not None and time.time() > state["deadline"]:
            # stop shrinking: pretend everything else passes (the smallest failure so far is kept)
            return

    try:
        test()
    except _Fail:
        case, msg = rec.last_failure
        rec.failures.append({"case": case, "msg": msg})
    except hypothesis.errors.Flaky as e:  # a failure that did not reproduce while shrinking: keep last
        if rec.last_failure is not None:
            case, msg = rec.last_failure
            rec.failures.append({"case": case, "msg": msg + " [flaky under shrinking: %s]" % type(e).__name__})
        else:
            raise


def shard_seed(seed, shard, salt=0):
    return (int(seed) * 1000003 + shard * 7919 + salt * 104729) % (2**31 - 1) + 1
