#!/bin/sh
# Run once in /verif after a fresh restore, offline.  Installs the property-testing libraries next to the
# repository's packages from the local wheelhouse only (no index), and creates the scratch directories.
set -e
cd "$(dirname "$0")"
export PIP_NO_INDEX=1
WH=/opt/veriftools/wheels
/venv/bin/python -c 'import hypothesis' 2>/dev/null || /venv/bin/pip install -q --no-index --find-links "$WH" hypothesis
mkdir -p .deps .work
if ! PYTHONPATH=.deps /venv/bin/python -c 'import atheris' 2>/dev/null; then
    /venv/bin/pip install -q --no-index --find-links "$WH" --target .deps atheris || echo "setup: atheris not installable (coverage-guided tier is skipped)"
fi
/venv/bin/python -c 'import hypothesis, numpy, numba; print("setup ok: hypothesis", hypothesis.__version__, "numba", numba.__version__)'
