#!/usr/bin/env python3
"""
Coverage-guided tier for the propagator-level properties (DESIGN.md 2.2): atheris (libFuzzer) mutates the byte string
that Hypothesis' fuzz_one_input decodes through the SAME strategies as the random tier, so the fuzzer reaches
structured (type, parameters, box) cases, the oracle (the property's check function) lives inside the target, and a
failing case is written as the usual JSON replay case.

usage: box_fuzz.py <PROP> <state.json> [libFuzzer args: -runs=N -seed=S corpus_dir]
"""
import json
import os
import sys

HERE = os.path.dirname(os.path.dirname(os.path.abspath(__file__)))
sys.path.insert(0, os.path.join(HERE, ".deps"))
sys.path.insert(0, HERE)
os.environ["NUMBA_DISABLE_JIT"] = "1"
prop, state_path = sys.argv[1], sys.argv[2]
argv = [sys.argv[0]] + sys.argv[3:]

import atheris  # noqa: E402

with atheris.instrument_imports(include=["nucs.propagators"]):
    from vlib import nx  # noqa: E402,F401

from hypothesis import HealthCheck, given, settings  # noqa: E402

from vlib import gen  # noqa: E402
from vlib.props import boxlevel as b  # noqa: E402
from vlib.run import case_hash  # noqa: E402

check = b.CHECKS[prop]
types = [t for t in b.TYPES_FOR[prop] if t in gen.HEAVY_TYPES] or b.TYPES_FOR[prop]
state = {"evaluations": 0, "nontrivial": [], "hist": {}, "failure": None, "samples": []}
seen = set()


def dump():
    tmp = state_path + ".tmp"
    with open(tmp, "w") as f:
        json.dump(state, f)
    os.replace(tmp, state_path)


@settings(database=None, deadline=None, suppress_health_check=list(HealthCheck))
@given(gen.box_case(types=types, max_n=7, max_w=4, lo=-4, hi=5, big=True))
def target(case):
    v = check(case)
    state["evaluations"] += 1
    state["hist"]["type:" + case["type"]] = state["hist"].get("type:" + case["type"], 0) + 1
    if v.nontrivial:
        h = case_hash(case)
        if h not in seen:
            seen.add(h)
            state["nontrivial"].append(h)
            if len(state["samples"]) < 3 and len(seen) % 50 == 1:
                state["samples"].append(case)
    if not v.ok:
        state["failure"] = {"case": case, "msg": v.msg}
        dump()
        raise AssertionError(v.msg)
    if state["evaluations"] % 500 == 0:
        dump()


atheris.Setup(argv, target.hypothesis.fuzz_one_input)
dump()
atheris.Fuzz()
